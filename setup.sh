#!/bin/bash
# Offline setup: nothing to download. Validates the tooling and the trusted shims natively.
set -e
cd "$(dirname "$0")"
export CARGO_NET_OFFLINE=true
cargo kani --version >/dev/null
cbmc --version >/dev/null
mkdir -p evidence replays
if [ -x native/validate.sh ]; then native/validate.sh; fi
echo "setup ok"
