//! Injected (natively, scratch copy only) as `huffman_encoding::verif_gen`: prints the
//! tables the *current source* computes for the fixed Huffman code, as Rust constants.
//! The Kani harnesses stub the two constructors with these constants (building them
//! under symbolic execution costs >15 min); the thorough tier re-checks equality under Kani.
use super::*;

pub fn verif_gen_tables() -> String {
    let r = HuffmanReader::create_fixed().unwrap();
    let w = HuffmanWriter::start_fixed_huffman_table();
    let mut s = String::new();
    s += &format!("pub const FIXED_LIT_TREE: [i32; {}] = {:?};\n", r.lit_huff_code_tree.len(), r.lit_huff_code_tree);
    s += &format!("pub const FIXED_DIST_TREE: [i32; {}] = {:?};\n", r.dist_huff_code_tree.len(), r.dist_huff_code_tree);
    s += &format!("pub const FIXED_LIT_LEN: [u8; {}] = {:?};\n", w.lit_code_lengths.len(), w.lit_code_lengths);
    s += &format!("pub const FIXED_LIT_CODE: [u16; {}] = {:?};\n", w.lit_huffman_codes.len(), w.lit_huffman_codes);
    s += &format!("pub const FIXED_DIST_LEN: [u8; {}] = {:?};\n", w.dist_code_lengths.len(), w.dist_code_lengths);
    s += &format!("pub const FIXED_DIST_CODE: [u16; {}] = {:?};\n", w.dist_huffman_codes.len(), w.dist_huffman_codes);
    s
}
