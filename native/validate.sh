#!/bin/bash
# Native validation of the trusted CRC shim against the real crc32fast crate (offline; both are in the cargo cache).
set -e
cd "$(dirname "$0")/crccheck"
CARGO_NET_OFFLINE=true cargo run --offline --quiet --target-dir /var/tmp/pfverif_crccheck_target
rm -rf /var/tmp/pfverif_crccheck_target
