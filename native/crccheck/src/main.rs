//! the bit-serial shim must agree with the real crc32fast on seeded pseudo-random buffers and edge cases
fn main() {
    let mut x: u64 = 0x9E3779B97F4A7C15;
    let mut next = || { x ^= x << 13; x ^= x >> 7; x ^= x << 17; x };
    let mut n = 0;
    for len in [0usize, 1, 2, 3, 4, 7, 8, 9, 15, 16, 17, 31, 32, 33, 63, 64, 65, 255, 256, 1000, 4096, 65537] {
        for _ in 0..8 {
            let buf: Vec<u8> = (0..len).map(|_| next() as u8).collect();
            assert_eq!(crc32fast::hash(&buf), shim::hash(&buf), "len {}", len);
            // incremental, split at an arbitrary point, with the IDAT prefix as parse_idat uses it
            let cut = if len == 0 { 0 } else { (next() as usize) % len };
            let mut a = crc32fast::Hasher::new(); a.update(b"IDAT"); a.update(&buf[..cut]); a.update(&buf[cut..]);
            let mut b = shim::Hasher::new(); b.update(b"IDAT"); b.update(&buf[..cut]); b.update(&buf[cut..]);
            assert_eq!(a.finalize(), b.finalize());
            n += 1;
        }
    }
    println!("crc32 shim agrees with crc32fast on {} buffers", n);
}
