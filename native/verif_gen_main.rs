fn main() {
    let out = std::env::args().nth(1).expect("output path");
    std::fs::write(out, preflate_rs::verif_gen_tables()).unwrap();
}
