// Demonstrations for two scanner defects found by k01s_scan_step / k01s_scan_cursor_1 (see /verif/DESIGN.md §4).
use preflate_rs::{expand_zlib_chunks, recreated_zlib_chunks};

fn stored_block(data: &[u8]) -> Vec<u8> {
    let mut v = vec![0x01];
    v.extend_from_slice(&(data.len() as u16).to_le_bytes());
    v.extend_from_slice(&(!(data.len() as u16)).to_le_bytes());
    v.extend_from_slice(data);
    v
}
fn png_chunk(payload: &[u8]) -> Vec<u8> {
    let mut v = (payload.len() as u32).to_be_bytes().to_vec();
    v.extend_from_slice(b"IDAT");
    v.extend_from_slice(payload);
    let mut h = crc32fast::Hasher::new();
    h.update(b"IDAT");
    h.update(payload);
    v.extend_from_slice(&h.finalize().to_be_bytes());
    v
}

/// F9: an IDAT run whose zlib stream has bytes between the end of the DEFLATE data and the Adler-32:
/// expand accepts it as a PNG chunk, recreate rejects the container it wrote.
#[test]
fn idat_with_bytes_after_deflate_end_roundtrips() {
    let plain = vec![0x41u8; 1100];
    let mut payload = vec![0x78, 0x01];
    payload.extend(stored_block(&plain));
    payload.extend_from_slice(&[0xAA, 0xBB, 0xCC]); // not part of the DEFLATE stream
    payload.extend_from_slice(&[1, 2, 3, 4]); // "Adler-32"
    let mut file = vec![0x89, b'P', b'N', b'G'];
    file.extend(png_chunk(&payload));
    file.extend_from_slice(&[0u8; 16]);
    let expanded = expand_zlib_chunks(&file, 0).expect("expand");
    let mut out = Vec::new();
    recreated_zlib_chunks(&mut std::io::Cursor::new(&expanded), &mut out).expect("recreate must accept what expand wrote");
    assert_eq!(out, file);
}

/// F10: "IDAT" directly behind an accepted zlib stream: the 4-byte look-back reaches into bytes that were already
/// emitted and `real_start - prev_index` underflows.
#[test]
fn idat_tag_right_after_zlib_stream_roundtrips() {
    let inner_plain = vec![0x42u8; 1100];
    let mut payload = vec![0x78, 0x01];
    payload.extend(stored_block(&inner_plain));
    payload.extend_from_slice(&[1, 2, 3, 4]);
    let chunk = png_chunk(&payload); // len(4) "IDAT" payload crc
    let mut outer_plain = vec![0x41u8; 1100];
    let n = outer_plain.len();
    outer_plain[n - 4..].copy_from_slice(&chunk[..4]); // the chunk length field = last 4 bytes of the stored data
    let mut file = vec![0x78, 0x01];
    file.extend(stored_block(&outer_plain));
    file.extend_from_slice(&chunk[4..]); // "IDAT" follows the DEFLATE data immediately
    file.extend_from_slice(&[0u8; 16]);
    let expanded = expand_zlib_chunks(&file, 0).expect("expand");
    let mut out = Vec::new();
    recreated_zlib_chunks(&mut std::io::Cursor::new(&expanded), &mut out).expect("recreate");
    assert_eq!(out, file);
}
