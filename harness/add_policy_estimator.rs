//! child of `add_policy_estimator`
#![allow(unused_imports, dead_code)]
use super::*;
use crate::verif_common::*;

kproof! {
    /// K05f/K04c: DictionaryAddPolicy::update_hash hands the chain only in-range slices and (pos, len),
    /// and makes exactly the calls the reference build makes
    fn k04c_add_policy_calls() {
        const L: usize = 260;
        let input = [0u8; L];
        let tail: usize = kani::any();
        kani::assume(tail >= 1 && tail <= L);
        let kind: u8 = kani::any();
        kani::assume(kind <= 4);
        let limit: u16 = kani::any();
        kani::assume(limit <= 258);
        let pos: u32 = kani::any();
        kani::assume(pos < (1 << 30));
        let length: u32 = kani::any();
        // commit_token: literal (1) or a reference that fits the remaining input
        kani::assume(length >= 1 && length <= 258 && length as usize <= tail);
        let (a, an) = super::verif_export::policy_calls(kind, limit, &input[..tail], pos, length);
        let (b, bn) = preflate_ref::add_policy_estimator::verif_export::policy_calls(kind, limit, &input[..tail], pos, length);
        assert!(an <= 2);
        let mut i = 0;
        while i < 3 {
            if i < an {
                // C05: what the chain receives is inside the text
                assert!(a[i].0 + a[i].2 as usize <= tail && a[i].1 == pos + a[i].0 as u32 && a[i].2 >= 1);
            }
            i += 1;
        }
        assert!(an == bn, "number of dictionary insertions differs from the reference build");
        let mut i = 0;
        while i < 3 { if i < an { assert!(a[i] == b[i], "dictionary insertion differs from the reference build"); } i += 1; }
        let l2: u32 = kani::any();
        kani::assume(l2 <= 258);
        assert!(super::verif_export::at_32k(l2, pos) == preflate_ref::add_policy_estimator::verif_export::at_32k(l2, pos));
        kani::cover!(an == 2, "first and last inserted");
        kani::cover!(an == 0, "nothing inserted (4k boundary)");
    }
}

use crate::preflate_token::{BlockType, PreflateToken, PreflateTokenBlock};
kproof! {
    /// K02h: range of estimate_add_policy on the real function: the limit it returns fits the 8-bit field of
    /// the parameter header (this is the precondition `any_add_policy` of the parameter round-trip lemmas)
    fn k02h_add_policy_range() {
        let mut blk = PreflateTokenBlock::new(BlockType::StaticHuff);
        blk.add_literal(1);
        let l1: u32 = kani::any(); let l2: u32 = kani::any(); let d2: u32 = kani::any();
        kani::assume(l1 >= 3 && l1 <= 258 && l2 >= 3 && l2 <= 258);
        blk.add_reference(l1, 1, false);
        kani::assume(d2 >= 1 && d2 <= 1 + l1);
        blk.add_reference(l2, d2, false);
        let blocks = vec![blk];
        let p = estimate_add_policy(&blocks);
        match p {
            DictionaryAddPolicy::AddFirst(v) | DictionaryAddPolicy::AddFirstAndLast(v) => assert!(v <= 255, "add-policy limit does not fit the 8-bit header field"),
            _ => {}
        }
        kani::cover!(matches!(p, DictionaryAddPolicy::AddFirst(255)), "AddFirst(255)");
        kani::cover!(matches!(p, DictionaryAddPolicy::AddAll), "AddAll");
        core::mem::forget(blocks);
    }
}
