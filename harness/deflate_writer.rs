//! child of `deflate_writer`: writer-side token coding against the RFC 1951 reference decoder (C07, C02)
#![allow(unused_imports, dead_code)]
use super::*;
use crate::preflate_token::PreflateTokenReference;
use crate::verif_common::*;

kproof! {
    /// K07w: the real writer's bits for a fixed-Huffman block holding one symbolic token, decoded by the
    /// bit-serial RFC 1951 reference decoder (no BitReader involved), give back exactly that token:
    /// every literal, every (length, distance), length 258 in both codings, both final-flag values, any
    /// final padding pattern; and the output has no surplus bytes.
    #[kani::stub(crate::huffman_encoding::HuffmanWriter::start_fixed_huffman_table, crate::huffman_encoding::verif_harness::stub_start_fixed)]
    #[kani::stub(crate::bit_writer::BitWriter::flush_whole_bytes, crate::verif_common::stub_flush_whole_bytes)]
    fn k07w_fixed_token_write() {
        let mut blk = PreflateTokenBlock::new(BlockType::StaticHuff);
        let is_ref: bool = kani::any();
        let lit: u8 = kani::any();
        let len: u32 = kani::any();
        let dist: u32 = kani::any();
        let irregular: bool = kani::any();
        kani::assume(len >= 3 && len <= 258 && dist >= 1 && dist <= 32768);
        kani::assume(!irregular || len == 258);
        if is_ref { blk.tokens.push(PreflateToken::Reference(PreflateTokenReference::new(len, dist, irregular))); }
        else { blk.tokens.push(PreflateToken::Literal(lit)); }
        let last: bool = kani::any();
        let pad: u8 = kani::any();
        let mut w = DeflateWriter { bitwriter: BitWriter::default(), output: Vec::with_capacity(16) };
        w.encode_block(&blk, last).unwrap();
        w.flush_with_padding(pad);
        let out = core::mem::take(&mut w.output);
        assert!(out.len() >= 2 && out.len() <= 6);
        let mut data = [0u8; 6];
        let mut i = 0;
        while i < 6 { if i < out.len() { data[i] = out[i]; } i += 1; }
        // header: BFINAL, BTYPE = 01
        assert!((data[0] & 1 == 1) == last && (data[0] >> 1) & 3 == 1, "block header bits wrong");
        let rb = ref_fixed_block(&data[..out.len()], 3, 32768);
        assert!(rb.ok && rb.n == 1, "writer output is not a well-formed fixed block with one token");
        if is_ref {
            assert!(rb.toks[0].is_ref && rb.toks[0].len == len && rb.toks[0].dist == dist, "reference token written wrongly");
            // length 258: code 285 (index 28) normally, 284 + 31 (index 27) when the irregular flag is set
            if len == 258 { assert!(rb.toks[0].lcode == if irregular { 27 } else { 28 }, "coding of length 258 not preserved"); }
        } else {
            assert!(!rb.toks[0].is_ref && rb.toks[0].lit == lit, "literal written wrongly");
        }
        assert!(out.len() == (rb.end_bit + 7) / 8, "surplus or missing bytes after the end-of-block code");
        // final padding bits replay `pad` LSB first
        let used = rb.end_bit & 7;
        if used != 0 {
            let padbits = data[out.len() - 1] >> used;
            assert!(padbits == (pad & ((1u8 << (8 - used)) - 1)), "final padding bits not replayed");
        }
        kani::cover!(is_ref && irregular, "length 258 as 284+31");
        kani::cover!(is_ref && dist == 32768 && len == 257, "largest distance, length 257");
        kani::cover!(!is_ref && lit >= 144, "nine-bit literal");
        core::mem::forget(out); core::mem::forget(blk);
    }
}

// helpers for harnesses in other modules (private fields / private method of DeflateWriter)
impl DeflateWriter {
    pub fn verif_new_with(bitwriter: BitWriter, output: Vec<u8>) -> Self { DeflateWriter { bitwriter, output } }
    pub fn verif_take_output(&mut self) -> Vec<u8> { core::mem::take(&mut self.output) }
    pub fn verif_encode_tokens(&mut self, block: &PreflateTokenBlock, hw: &HuffmanWriter) { self.encode_block_with_decoder(block, hw) }
}
