//! child of `scan_deflate`: scanner loop (tiling, cursor arithmetic), header parsers (C01, C05, C06)
#![allow(unused_imports, dead_code)]
use super::*;
use crate::add_policy_estimator::DictionaryAddPolicy;
use crate::preflate_parameter_estimator::{PreflateHuffStrategy, PreflateParameters, PreflateStrategy};
use crate::verif_common::*;

fn dummy_params() -> PreflateParameters {
    PreflateParameters { huff_strategy: PreflateHuffStrategy::Dynamic, predictor: nodict_predictor_params(PreflateStrategy::Store) }
}

/// CONTRACT of decompress_deflate_stream as the scanner relies on it (discharged for the parser
/// by k07a/k07b/k03e: compressed_size is the byte cursor after the last block, hence in 1..=len):
///   Err, or Ok(r) with 1 <= r.compressed_size <= input.len(); plaintext on either side of 1024.
pub static mut DEC_LAST_LEN: usize = 0x5EED_0000_0000_001C; // length of the slice the last analysis call was given
pub fn contract_decompress(compressed_data: &[u8], _verify: bool, _loglevel: u32) -> core::result::Result<DecompressResult, crate::preflate_error::PreflateError> {
    unsafe { DEC_LAST_LEN = compressed_data.len(); }
    if compressed_data.is_empty() || kani::any() {
        return Err(crate::preflate_error::PreflateError::new(ExitCode::InvalidDeflate, ""));
    }
    let cs: usize = kani::any();
    kani::assume(cs >= 1 && cs <= compressed_data.len());
    let big: bool = kani::any();
    Ok(DecompressResult {
        plain_text: if big { vec![0u8; 1025] } else { vec![0u8; 1024] },
        prediction_corrections: Vec::new(),
        compressed_size: cs,
        parameters: dummy_params(),
    })
}

/// CONTRACT of skip_gzip_header (discharged by k01_gzip_hdr_16): Err, or Ok after consuming >= 10 bytes
pub fn contract_skip_gzip<R: Read>(reader: &mut R) -> Result<()> {
    // (if the real function's bounds change, this stub stops matching: build failure = inconclusive)
    let k: usize = kani::any();
    kani::assume(k >= 10 && k <= 16);
    let mut b = [0u8; 16];
    if reader.read_exact(&mut b[..k]).is_err() || kani::any() {
        return err_exit_code(ExitCode::InvalidDeflate, "");
    }
    Ok(())
}

/// CONTRACT of parse_zip_stream (discharged by k01_zip_hdr_34 — which fails on the pinned tree, F3):
/// Err, or Ok((h, r)) with 30 <= h, 1 <= r.compressed_size, h + r.compressed_size <= contents.len()
pub fn contract_parse_zip(contents: &[u8]) -> Result<(usize, DecompressResult)> {
    if contents.len() < 31 || kani::any() {
        return err_exit_code(ExitCode::InvalidDeflate, "");
    }
    let h: usize = kani::any();
    kani::assume(h >= 30 && h < contents.len());
    let r = contract_decompress(&contents[h..], true, 0)?;
    Ok((h, r))
}

/// CONTRACT of parse_idat (discharged by k01e_idat_total): Err, or Ok with 12 <= total_chunk_length <= len
pub fn contract_parse_idat(png: &[u8], _lvl: u32) -> Result<(IdatContents, Vec<u8>)> {
    if png.len() < 12 || kani::any() {
        return err_exit_code(ExitCode::InvalidIDat, "");
    }
    let t: usize = kani::any();
    kani::assume(t >= 12 && t <= png.len());
    // the scanner's threshold is on total_chunk_length: let it be "large" or not independently of t
    Ok((IdatContents { chunk_sizes: Vec::new(), zlib_header: [0, 0], total_chunk_length: t, addler32: 0 }, vec![0u8; 1]))
}

/// number of positions holding a two-byte signature (what next_signature stops at)
fn signature_hits(d: &[u8]) -> usize {
    let mut n = 0;
    let mut i = 0;
    while i + 1 < d.len() {
        let s = u16::from_le_bytes([d[i], d[i + 1]]);
        if s == 0x0178 || s == 0x5E78 || s == 0x9C78 || s == 0xDA78 || s == 0x4B50 || s == 0x8B1F || s == 0x4449 { n += 1; }
        i += 1;
    }
    n
}

/// what expand_zlib_chunks does with the scanner's result: slice literals out of the file
fn check_tiling(locs: &Vec<BlockChunk>, n: usize, maxchunks: usize) -> bool {
    let mut index = 0usize;
    let mut saw_stream = false;
    let mut i = 0;
    while i < maxchunks {
        if i < locs.len() {
            match &locs[i] {
                BlockChunk::Literal(k) => {
                    assert!(*k <= n - index, "literal chunk longer than the remaining file (expand would slice out of range)");
                    index += *k;
                }
                BlockChunk::DeflateStream(r) => { index += r.compressed_size; saw_stream = true; }
                BlockChunk::IDATDeflate(id, _r) => { index += id.total_chunk_length; saw_stream = true; }
            }
            assert!(index <= n, "chunks overrun the file");
        }
        i += 1;
    }
    assert!(locs.len() <= maxchunks);
    assert!(index == n, "chunks do not tile the file");
    saw_stream
}

/// Signature kinds placed at CONCRETE offsets of an otherwise zero file; what the scanner does at each hit depends
/// only on the (symbolic) outcomes of the contract stubs.  Symbolic file bytes make symbolic execution fork into
/// every arm at every byte pair (8 symbolic bytes: > 20 GB), so the *places and kinds* of look-alikes are concrete
/// per instance and everything the callees may answer is symbolic.
const SIG_NONE: u8 = 0; const SIG_ZLIB: u8 = 1; const SIG_GZIP: u8 = 2; const SIG_ZIP: u8 = 3; const SIG_IDAT: u8 = 4;
fn place(data: &mut [u8], at: usize, kind: u8) {
    match kind {
        SIG_ZLIB => { data[at] = 0x78; data[at + 1] = 0x9c; }
        SIG_GZIP => { data[at] = 0x1f; data[at + 1] = 0x8b; }
        SIG_ZIP => { data[at] = 0x50; data[at + 1] = 0x4b; }
        SIG_IDAT => { data[at] = 0x49; data[at + 1] = 0x44; }
        _ => {}
    }
}
fn scan_case<const N: usize>(k1: u8, at1: usize, k2: u8, at2: usize) {
    let mut data = [0u8; N];
    place(&mut data, at1, k1);
    place(&mut data, at2, k2);
    let mut locs: Vec<BlockChunk> = Vec::with_capacity(8);
    split_into_deflate_streams(&data[..], &mut locs, 0);
    let _saw = check_tiling(&locs, N, 6);
    core::mem::forget(locs);
}
macro_rules! scan_h { ($(#[$m:meta])* fn $n:ident() $b:block) => { kproof! {
    $(#[$m])*
    #[kani::stub(crate::preflate_container::decompress_deflate_stream, contract_decompress)]
    #[kani::stub(crate::scan_deflate::skip_gzip_header, contract_skip_gzip)]
    #[kani::stub(crate::scan_deflate::parse_zip_stream, contract_parse_zip)]
    #[kani::stub(crate::idat_parse::parse_idat, contract_parse_idat)]
    fn $n() $b
} } }
scan_h! {
    /// K01a: scanner tiling: one look-alike of each kind in a 1056-byte file (long enough for every arm to
    /// accept: gzip/zip headers fit, an IDAT run can exceed MIN_BLOCKSIZE), every contract-allowed outcome
    fn k01a_scan_tiling_single() {
        scan_case::<1056>(SIG_ZLIB, 3, SIG_NONE, 0);
        scan_case::<1056>(SIG_GZIP, 0, SIG_NONE, 0);
        scan_case::<1056>(SIG_ZIP, 5, SIG_NONE, 0);
        scan_case::<1056>(SIG_IDAT, 4, SIG_NONE, 0);
        kani::cover!(true, "reached");
    }
}
scan_h! {
    /// K01a-pairs: an IDAT look-alike right after a zlib look-alike (the look-back of 4 bytes can reach into an
    /// already accepted stream), and two zlib look-alikes
    fn k01a_scan_tiling_pairs() {
        scan_case::<1056>(SIG_ZLIB, 4, SIG_IDAT, 12);
        scan_case::<1056>(SIG_ZLIB, 0, SIG_ZLIB, 6);
        kani::cover!(true, "reached");
    }
}
scan_h! {
    /// experimental: same as the IDAT-after-zlib pair, explored path by path
    fn k01a_scan_tiling_paths() {
        scan_case::<1056>(SIG_ZLIB, 4, SIG_IDAT, 12);
        kani::cover!(true, "reached");
    }
}
scan_h! {
    /// K01a-short: short files (look-alikes at the very end, IDAT with fewer than 4 bytes before it)
    fn k01a_scan_tiling_short() {
        scan_case::<4>(SIG_ZLIB, 2, SIG_NONE, 0);
        scan_case::<6>(SIG_IDAT, 2, SIG_GZIP, 4);
        scan_case::<3>(SIG_ZIP, 0, SIG_NONE, 0);
        kani::cover!(true, "reached");
    }
}

/// CONTRACT of split_into_deflate_streams for files in which no analysis call accepts (discharged by
/// k01a_scan_reject_all_8): exactly one literal chunk covering the file, none for the empty file
pub fn contract_split_literal_only(src: &[u8], locations_found: &mut Vec<BlockChunk>, _loglevel: u32) {
    if !src.is_empty() {
        locations_found.push(BlockChunk::Literal(src.len()));
    }
}
pub fn reject_decompress(_d: &[u8], _v: bool, _l: u32) -> core::result::Result<DecompressResult, crate::preflate_error::PreflateError> {
    Err(crate::preflate_error::PreflateError::new(ExitCode::InvalidDeflate, ""))
}
kproof! {
    /// K01a-reject: when every analysis call rejects, the real scanner returns one literal chunk covering the
    /// file (the contract the zstd / C-ABI harnesses use for files that hold no acceptable stream)
    #[kani::stub(crate::preflate_container::decompress_deflate_stream, reject_decompress)]
    #[kani::stub(crate::scan_deflate::skip_gzip_header, contract_skip_gzip)]
    #[kani::stub(crate::scan_deflate::parse_zip_stream, contract_parse_zip)]
    #[kani::stub(crate::idat_parse::parse_idat, contract_parse_idat)]
    fn k01a_scan_reject_all_8() {
        for (k1, a1, k2, a2) in [(SIG_ZLIB, 0usize, SIG_GZIP, 4usize), (SIG_ZIP, 1, SIG_IDAT, 5), (SIG_IDAT, 4, SIG_ZLIB, 6), (SIG_NONE, 0, SIG_NONE, 0)] {
            let mut data = [0u8; 8];
            place(&mut data, a1, k1);
            place(&mut data, a2, k2);
            let mut locs: Vec<BlockChunk> = Vec::with_capacity(4);
            split_into_deflate_streams(&data[..], &mut locs, 0);
            assert!(locs.len() == 1);
            assert!(matches!(locs[0], BlockChunk::Literal(k) if k == 8), "file without accepted stream is not one literal chunk");
            core::mem::forget(locs);
        }
        kani::cover!(true, "reached");
    }
}

/// the gzip header parser alone: all inputs of <= N bytes
fn gzip_hdr<const N: usize>() {
    let mut src = SrcEof::<N> { data: kani::any(), pos: 0, len: kani::any() };
    kani::assume(src.len <= N);
    // RFC 1952 reading of the header length: 10 fixed bytes, then FEXTRA (2 + XLEN), FNAME and FCOMMENT
    // (zero-terminated), FHCRC (2), in that order
    let d = src.data;
    let n = src.len;
    let mut exp: usize = 10;
    let mut fits = n >= 10;
    if fits && d[3] & 4 != 0 {
        if exp + 2 <= n { let xl = u16::from_le_bytes([d[exp], d[exp + 1]]) as usize; exp += 2 + xl; fits = exp <= n; } else { fits = false; }
    }
    let mut f = 0;
    while f < 2 {
        let bit = if f == 0 { 8 } else { 16 };
        if fits && d[3] & bit != 0 {
            let mut found = false;
            let mut i = 0;
            while i < N { if !found && i >= exp && i < n && d[i] == 0 { found = true; exp = i + 1; } i += 1; }
            fits = found;
        }
        f += 1;
    }
    if fits && d[3] & 2 != 0 { exp += 2; fits = exp <= n; }
    let r = skip_gzip_header(&mut src);
    if r.is_ok() {
        assert!(src.pos >= 10 && src.pos <= src.len);
        assert!(src.data[2] == 8);
        assert!(fits && src.pos == exp, "gzip header length differs from the RFC 1952 reading (the stream would be looked for at the wrong offset)");
    } else {
        assert!(!fits || d[2] != 8, "a complete gzip header with CM = 8 was rejected");
    }
    kani::cover!(r.is_ok() && src.data[3] & 0x1e == 0x1e, "all four optional fields present and accepted");
    kani::cover!(r.is_err(), "rejected");
}
kproof! { fn k01_gzip_hdr_16() { gzip_hdr::<16>(); } }

kproof! {
    /// zip local header parser with the analysis replaced by its contract: never panics, and
    /// Ok((h, r)) implies h + r.compressed_size <= len (what the scanner adds to its cursor)
    #[kani::stub(crate::preflate_container::decompress_deflate_stream, contract_decompress)]
    fn k01_zip_hdr_34() {
        let data: [u8; 34] = kani::any();
        let n: usize = kani::any();
        kani::assume(n <= 34);
        unsafe { DEC_LAST_LEN = 0; }
        let r = parse_zip_stream(&data[..n]);
        if let Ok((h, res)) = &r {
            assert!(*h >= 30 && *h + res.compressed_size <= n);
            // APPNOTE 4.3.7: the data follows the 30-byte fixed part, the file name and the extra field
            let nl = u16::from_le_bytes([data[26], data[27]]) as usize;
            let el = u16::from_le_bytes([data[28], data[29]]) as usize;
            assert!(*h == 30 + nl + el, "zip data offset differs from 30 + name length + extra length");
            assert!(data[0] == 0x50 && data[1] == 0x4b && data[2] == 3 && data[3] == 4 && data[8] == 8 && data[9] == 0, "accepted without signature or with a method other than 8");
            // C06: the analysis must see the whole embedded stream.  With a data descriptor (general purpose bit 3) or a
            // zero size field the local header does not say where the stream ends, so only "everything behind the
            // header" is right; otherwise at least the declared number of bytes must be handed over.
            let slice = unsafe { DEC_LAST_LEN };
            let declared = u32::from_le_bytes([data[18], data[19], data[20], data[21]]) as usize;
            if (data[6] & 8) != 0 || declared == 0 { assert!(slice == n - *h, "zip entry with a data descriptor: the analysis is not given the bytes behind the header"); }
            else { assert!(slice >= core::cmp::min(n - *h, declared), "the analysis is given fewer bytes than the zip header declares"); }
        }
        kani::cover!(r.is_ok(), "accepted");
        kani::cover!(r.is_ok() && data[26] == 2 && data[28] == 1, "name and extra present");
        core::mem::forget(r);
    }
}

// ---------------------------------------------------------------------------
// C06: embedded streams are found.  The analysis is an OFFSET ORACLE: it accepts (plaintext 1025 bytes,
// compressed_size = S_LEN) exactly when called on the slice that starts at the true stream start, which
// the oracle recognises by the slice's length (every start offset gives a different length), and rejects
// everywhere else ("no other acceptable stream overlaps").  Header parsing, signature table, cursor
// arithmetic and thresholds are the real code.
// ---------------------------------------------------------------------------
pub static mut ORACLE_LEN: usize = 0x5EED_0000_0000_0011;
pub static mut ORACLE_CS: usize = 0x5EED_0000_0000_0012;
pub static mut ORACLE_CALLS_OK: u32 = 0x5EED_0013;
pub fn oracle_decompress(d: &[u8], verify: bool, _l: u32) -> core::result::Result<DecompressResult, crate::preflate_error::PreflateError> {
    unsafe {
        if d.len() == ORACLE_LEN {
            assert!(verify, "the scanner must analyse with verify = true");
            ORACLE_CALLS_OK += 1;
            return Ok(DecompressResult { plain_text: vec![0u8; 1025], prediction_corrections: Vec::new(), compressed_size: ORACLE_CS, parameters: dummy_params() });
        }
    }
    Err(crate::preflate_error::PreflateError::new(ExitCode::InvalidDeflate, ""))
}

const S_LEN: usize = 3; // bytes of the embedded stream S (its content is irrelevant to the oracle)

/// common epilogue: S must be emitted as a stream chunk starting exactly at `t`
fn assert_found(locs: &Vec<BlockChunk>, t: usize) {
    assert!(locs.len() >= 2, "the embedded stream was not found (file copied as literal)");
    match &locs[0] { BlockChunk::Literal(n) => assert!(*n == t, "literal before the stream does not end at the stream start"), _ => assert!(false, "first chunk is not the literal prefix") }
    assert!(matches!(&locs[1], BlockChunk::DeflateStream(_)), "second chunk is not the expanded stream");
}

kproof! {
    /// K06a: zlib header 78 01 | 78 5E | 78 9C | 78 DA behind 2 arbitrary bytes
    #[kani::stub(crate::preflate_container::decompress_deflate_stream, oracle_decompress)]
    #[kani::stub(std::vec::Vec::push, crate::verif_common::stub_vec_push_any)]
    fn k06a_find_zlib() {
        const N: usize = 2 + 2 + S_LEN + 2;
        let mut f: [u8; N] = kani::any();
        f[2] = 0x78;
        let k: u8 = kani::any();
        kani::assume(k < 4);
        f[3] = match k { 0 => 0x01, 1 => 0x5E, 2 => 0x9C, _ => 0xDA };
        kani::assume(signature_hits(&f) == 1); // the wrapper's own signature is the only look-alike
        unsafe { ORACLE_LEN = N - 4; ORACLE_CS = S_LEN; }
        let mut locs: Vec<BlockChunk> = Vec::with_capacity(8);
        split_into_deflate_streams(&f[..], &mut locs, 0);
        assert_found(&locs, 4);
        kani::cover!(k == 3, "78 DA");
        core::mem::forget(locs);
    }
}

kproof! {
    /// K06b: gzip header with every combination of FEXTRA / FNAME / FCOMMENT / FHCRC (small fields)
    #[kani::stub(crate::preflate_container::decompress_deflate_stream, oracle_decompress)]
    #[kani::stub(std::vec::Vec::push, crate::verif_common::stub_vec_push_any)]
    fn k06b_find_gzip() {
        const N: usize = 2 + 10 + 4 + 3 + 3 + 2 + S_LEN + 2;
        let mut f: [u8; N] = kani::any();
        f[2] = 0x1f; f[3] = 0x8b; f[4] = 8;
        let flg: u8 = f[5];
        kani::assume(flg & 0xe0 == 0);
        let mut p = 12usize;
        if flg & 4 != 0 {
            let xlen: usize = kani::any();
            kani::assume(xlen <= 2);
            f[p] = xlen as u8; f[p + 1] = 0; p += 2 + xlen;
        }
        if flg & 8 != 0 {
            let nl: usize = kani::any();
            kani::assume(nl <= 2);
            let mut i = 0; while i < 2 { if i < nl { kani::assume(f[p + i] != 0); } i += 1; }
            f[p + nl] = 0; p += nl + 1;
        }
        if flg & 16 != 0 {
            let cl: usize = kani::any();
            kani::assume(cl <= 2);
            let mut i = 0; while i < 2 { if i < cl { kani::assume(f[p + i] != 0); } i += 1; }
            f[p + cl] = 0; p += cl + 1;
        }
        if flg & 2 != 0 { p += 2; }
        let t = p;
        kani::assume(signature_hits(&f) == 1);
        unsafe { ORACLE_LEN = N - t; ORACLE_CS = S_LEN; }
        let mut locs: Vec<BlockChunk> = Vec::with_capacity(8);
        split_into_deflate_streams(&f[..], &mut locs, 0);
        assert_found(&locs, t);
        kani::cover!(flg == 0x1e, "all optional fields");
        kani::cover!(flg == 0, "bare header");
        core::mem::forget(locs);
    }
}

kproof! {
    /// K06c: ZIP local file header, method 8, name/extra lengths 0..=2
    #[kani::stub(crate::preflate_container::decompress_deflate_stream, oracle_decompress)]
    #[kani::stub(std::vec::Vec::push, crate::verif_common::stub_vec_push_any)]
    fn k06c_find_zip() {
        const N: usize = 2 + 30 + 2 + 2 + S_LEN + 2;
        let mut f: [u8; N] = kani::any();
        f[2] = 0x50; f[3] = 0x4b; f[4] = 3; f[5] = 4;
        f[10] = 8; f[11] = 0; // compression method (offset 8 in the header)
        let nl: usize = kani::any();
        let el: usize = kani::any();
        kani::assume(nl <= 2 && el <= 2);
        f[28] = nl as u8; f[29] = 0; f[30] = el as u8; f[31] = 0;
        let t = 2 + 30 + nl + el;
        kani::assume(signature_hits(&f) == 1);
        unsafe { ORACLE_LEN = N - t; ORACLE_CS = S_LEN; }
        let mut locs: Vec<BlockChunk> = Vec::with_capacity(8);
        split_into_deflate_streams(&f[..], &mut locs, 0);
        assert_found(&locs, t);
        kani::cover!(nl == 2 && el == 2, "name and extra field present");
        core::mem::forget(locs);
    }
}

kproof! {
    /// K06d: the two-byte signature table: next_signature stops at a byte pair exactly when it is one of the
    /// documented signatures (78 01 / 78 5E / 78 9C / 78 DA, PK, 1F 8B, "ID")
    fn k06d_signature_table() {
        let d: [u8; 3] = kani::any();
        let mut index = 0usize;
        let r = next_signature(&d[..], &mut index);
        let is_sig = |a: u8, b: u8| (a == 0x78 && (b == 0x01 || b == 0x5e || b == 0x9c || b == 0xda)) || (a == 0x50 && b == 0x4b) || (a == 0x1f && b == 0x8b) || (a == 0x49 && b == 0x44);
        let s0 = is_sig(d[0], d[1]);
        let s1 = is_sig(d[1], d[2]);
        assert!(r.is_some() == (s0 || s1), "signature table differs from the documented set");
        if r.is_some() { assert!(index == if s0 { 0 } else { 1 }, "signature reported at the wrong offset"); }
        match r {
            Some(Signature::Zlib(_)) => assert!(d[index] == 0x78),
            Some(Signature::ZipLocalFileHeader) => assert!(d[index] == 0x50),
            Some(Signature::Gzip) => assert!(d[index] == 0x1f),
            Some(Signature::IDAT) => assert!(d[index] == 0x49),
            None => {}
        }
        kani::cover!(s1 && !s0, "signature at offset 1");
        kani::cover!(r.is_none(), "no signature");
    }
}

kproof! { fn k01_gzip_hdr_20() { gzip_hdr::<20>(); } }

// ---------------------------------------------------------------------------
// IDAT arm of the scanner: what is emitted must be reconstructible (C01)
// ---------------------------------------------------------------------------
pub static mut IDAT_PAYLOAD_LEN: usize = 0x5EED_0000_0000_0014;
/// parse_idat stand-in with CONCRETE sizes (so the scanner's cursor stays concrete): one chunk of 1040 bytes
pub fn fixed_parse_idat(png: &[u8], _lvl: u32) -> Result<(IdatContents, Vec<u8>)> {
    if png.len() < 1052 { return err_exit_code(ExitCode::InvalidIDat, ""); }
    Ok((IdatContents { chunk_sizes: vec![1040], zlib_header: [0x78, 0x9c], total_chunk_length: 1052, addler32: 0 }, vec![0u8; 1034]))
}
/// analysis stand-in: accepts the IDAT payload and reports ANY consumed length the real parser could report
/// (1..=payload length: the DEFLATE stream may end before the end of the payload)
pub fn any_cs_decompress(d: &[u8], _verify: bool, _l: u32) -> core::result::Result<DecompressResult, crate::preflate_error::PreflateError> {
    if d.len() != 1034 { return Err(crate::preflate_error::PreflateError::new(ExitCode::InvalidDeflate, "")); }
    let cs: usize = kani::any();
    kani::assume(cs >= 1 && cs <= d.len());
    Ok(DecompressResult { plain_text: vec![0u8; 1025], prediction_corrections: Vec::new(), compressed_size: cs, parameters: dummy_params() })
}
kproof! {
    /// K01h: whenever the scanner emits a PNG chunk, the chunk is reconstructible: recreate_idat requires
    /// sum(chunk sizes) == reconstructed stream length + 2 (zlib header) + 4 (Adler-32), and the reconstructed
    /// stream has exactly compressed_size bytes — so the emitted pair must satisfy that equation
    #[kani::stub(crate::preflate_container::decompress_deflate_stream, any_cs_decompress)]
    #[kani::stub(crate::idat_parse::parse_idat, fixed_parse_idat)]
    fn k01h_idat_arm_reconstructible() {
        const N: usize = 1060;
        let mut data = [0u8; N];
        data[4] = b'I'; data[5] = b'D'; data[6] = b'A'; data[7] = b'T';
        let mut locs: Vec<BlockChunk> = Vec::with_capacity(4);
        split_into_deflate_streams(&data[..], &mut locs, 0);
        let mut i = 0;
        while i < 4 {
            if i < locs.len() {
                if let BlockChunk::IDATDeflate(idat, res) = &locs[i] {
                    let mut sum = 0usize;
                    let mut k = 0;
                    while k < 2 { if k < idat.chunk_sizes.len() { sum += idat.chunk_sizes[k] as usize; } k += 1; }
                    assert!(sum == res.compressed_size + 6, "a PNG chunk is emitted that recreate_idat will reject (bytes between the end of the DEFLATE stream and the Adler-32)");
                }
            }
            i += 1;
        }
        kani::cover!(locs.len() >= 2 && matches!(locs[1], BlockChunk::IDATDeflate(..)), "a PNG chunk was emitted");
        core::mem::forget(locs);
    }
}

// ---------------------------------------------------------------------------
// Scanner cursor arithmetic with EVERY callee (incl. next_signature) replaced by its contract: no loop over file
// bytes is left, so the cursor may be symbolic.  The contract of next_signature is discharged by
// k01n_next_signature_contract (below) and k06d_signature_table.
// ---------------------------------------------------------------------------
pub static mut SIG_CALLS: u32 = 0x5EED_0015;
pub static mut SIG_MAX: u32 = 0x5EED_0016;
pub static mut IDAT_CALL: u32 = 0x5EED_0017; // flag: 1 = set (not a bool: see the note on static mut in hash_chain_holder.rs)
/// inductive-step mode: the first hit is a zlib header whose stream is accepted (any position, any consumed length),
/// which puts the scanner into an ARBITRARY reachable state prev_index == P, 3 <= P <= n, with the chunks so far tiling
/// [0, P); the hit after it is fully symbolic.  (After any accept prev_index == index; after a reject only index moves.)
pub static mut FIRST_ZLIB_ACCEPT: u32 = 0x5EED_0018; // flag: 1 = set
pub static mut DEC_CALLS: u32 = 0x5EED_0019;
/// CONTRACT of next_signature: None (index untouched), or Some(kind) with the new index in old..=len-2.
/// Kind and position of every hit are symbolic.  At most SIG_MAX hits per file (the stated bound).
/// C06 at loop level: where every search for the next signature started, and where it hit
pub const SIG_LOG_N: usize = 5;
pub static mut SIG_START: [usize; SIG_LOG_N] = [0x5EED_0000_0000_001A; SIG_LOG_N];
pub static mut SIG_HIT: [usize; SIG_LOG_N] = [0x5EED_0000_0000_001B; SIG_LOG_N];
pub(crate) fn contract_next_signature(src: &[u8], index: &mut usize) -> Option<Signature> {
    // the call counter is advanced unconditionally and first, so that it stays concrete under symbolic execution
    let c = unsafe { let c = SIG_CALLS; SIG_CALLS += 1; c };
    unsafe { if (c as usize) < SIG_LOG_N { SIG_START[c as usize] = *index; SIG_HIT[c as usize] = usize::MAX; } }
    if c >= unsafe { SIG_MAX } { return None; }
    let forced = c == 0 && unsafe { FIRST_ZLIB_ACCEPT } == 1;
    if src.len() < 2 || (!forced && kani::any()) { return None; }
    let k: u8 = if forced { SIG_ZLIB } else { kani::any() };
    let i: usize = kani::any();
    kani::assume(i >= *index && i <= src.len() - 2);
    *index = i;
    unsafe { if (c as usize) < SIG_LOG_N { SIG_HIT[c as usize] = i; } }
    Some(match k { SIG_ZLIB => Signature::Zlib(0), SIG_ZIP => Signature::ZipLocalFileHeader, SIG_GZIP => Signature::Gzip, _ => Signature::IDAT })
}
/// 1025 bytes of plaintext nobody reads: a real heap allocation (so that a native replay may drop it), not initialised
fn big_plain() -> Vec<u8> {
    let mut v: Vec<u8> = Vec::with_capacity(1025);
    unsafe { v.set_len(1025); }
    v
}
/// decompress_deflate_stream contract with little heap traffic: a rejected analysis is Err or an Ok whose plaintext is
/// below the threshold (empty Vec: no allocation); an accepted one carries 1025 bytes of (uninitialised) plaintext
pub fn contract_decompress_light(compressed_data: &[u8], _verify: bool, _loglevel: u32) -> core::result::Result<DecompressResult, crate::preflate_error::PreflateError> {
    let dc = unsafe { let d = DEC_CALLS; DEC_CALLS += 1; d };
    let forced = dc == 0 && unsafe { FIRST_ZLIB_ACCEPT } == 1;
    if forced {
        kani::assume(!compressed_data.is_empty());
        let cs: usize = kani::any();
        kani::assume(cs >= 1 && cs <= compressed_data.len());
        let plain = big_plain();
        return Ok(DecompressResult { plain_text: plain, prediction_corrections: Vec::new(), compressed_size: cs, parameters: dummy_params() });
    }
    if compressed_data.is_empty() || kani::any() {
        return Err(crate::preflate_error::PreflateError::new(ExitCode::InvalidDeflate, ""));
    }
    let cs: usize = kani::any();
    kani::assume(cs >= 1 && cs <= compressed_data.len());
    // (the PNG arm thresholds on the chunk length, not on the plaintext: no need for a long plaintext there)
    let big: bool = kani::any() && unsafe { IDAT_CALL } != 1;
    unsafe { IDAT_CALL = 0; }
    let plain = if big { big_plain() } else { Vec::new() };
    Ok(DecompressResult { plain_text: plain, prediction_corrections: Vec::new(), compressed_size: cs, parameters: dummy_params() })
}
pub fn contract_parse_zip_light(contents: &[u8]) -> Result<(usize, DecompressResult)> {
    if contents.len() < 31 || kani::any() {
        return err_exit_code(ExitCode::InvalidDeflate, "");
    }
    let h: usize = kani::any();
    kani::assume(h >= 30 && h < contents.len());
    let r = contract_decompress_light(&contents[h..], true, 0)?;
    Ok((h, r))
}
/// CONTRACT of parse_idat, richer variant (discharged by k01e_idat_*): Err, or Ok with one recorded chunk of c bytes,
/// total_chunk_length = c + 12 <= len, payload = c - 6 bytes (zlib header and Adler-32 split off)
pub fn contract_parse_idat_one(png: &[u8], _lvl: u32) -> Result<(IdatContents, Vec<u8>)> {
    if png.len() < 18 || kani::any() {
        return err_exit_code(ExitCode::InvalidIDat, "");
    }
    let c: usize = kani::any();
    kani::assume(c >= 6 && c <= png.len() - 12);
    unsafe { IDAT_CALL = 1; }
    let mut payload: Vec<u8> = Vec::with_capacity(SCAN_N);
    unsafe { payload.set_len(c - 6); }
    let mut sizes: Vec<u32> = Vec::with_capacity(1);
    sizes.push(c as u32);
    Ok((IdatContents { chunk_sizes: sizes, zlib_header: [0, 0], total_chunk_length: c + 12, addler32: 0 }, payload))
}
/// CONTRACT of skip_gzip_header without the 16-byte cap: Err, or Ok after consuming k >= 10 bytes (k01_gzip_hdr_16: k
/// is the RFC 1952 header length, which has no upper bound below the file length)
pub fn contract_skip_gzip_any<R: Read>(reader: &mut R) -> Result<()> {
    // the scanner's only instantiation is R = Cursor<&[u8]>; moving the cursor directly avoids a copy of symbolic length
    let c: &mut Cursor<&[u8]> = unsafe { &mut *(reader as *mut R as *mut Cursor<&[u8]>) };
    let k: usize = kani::any();
    kani::assume(k >= 10);
    if k > c.get_ref().len() || kani::any() {
        return err_exit_code(ExitCode::InvalidDeflate, "");
    }
    c.set_position(k as u64);
    Ok(())
}
const SCAN_N: usize = 1100;
fn scan_cursor<const HITS: usize>() { scan_cursor_x::<HITS>(false) }
fn scan_cursor_x<const HITS: usize>(first_zlib_accept: bool) {
    unsafe { SIG_CALLS = 0; SIG_MAX = HITS as u32; IDAT_CALL = 0; DEC_CALLS = 0; FIRST_ZLIB_ACCEPT = first_zlib_accept as u32; }
    let data = [0u8; SCAN_N];
    let n: usize = kani::any();
    kani::assume(n <= SCAN_N);
    let mut locs: Vec<BlockChunk> = Vec::with_capacity(2 * HITS + 1);
    split_into_deflate_streams(&data[..n], &mut locs, 0);
    // what expand_zlib_chunks / recreated_zlib_chunks need from the chunk list
    let mut index = 0usize;
    let mut i = 0;
    let mut streams = 0;
    let mut stream_end = [usize::MAX; HITS];
    while i < 2 * HITS + 1 {
        if i < locs.len() {
            match &locs[i] {
                BlockChunk::Literal(k) => {
                    assert!(*k <= n - index, "literal chunk longer than the remaining file (expand would slice out of range)");
                    index += *k;
                }
                BlockChunk::DeflateStream(r) => { index += r.compressed_size; if streams < HITS { stream_end[streams] = index; } streams += 1; }
                BlockChunk::IDATDeflate(id, r) => {
                    assert!(id.chunk_sizes.len() == 1);
                    assert!(id.chunk_sizes[0] as usize == r.compressed_size + 6, "a PNG chunk is emitted that recreate_idat will reject (chunk sizes != stream length + 6)");
                    index += id.total_chunk_length; if streams < HITS { stream_end[streams] = index; } streams += 1;
                }
            }
            assert!(index <= n, "chunks overrun the file");
        }
        i += 1;
    }
    assert!(index == n, "chunks do not tile the file");
    // C06: the scanner probes every offset that is not inside an accepted stream: the first search starts at 0, and the
    // search after a hit at h starts at h + 1 (hit rejected) or exactly at the end of a stream emitted for that hit
    unsafe {
        let calls = SIG_CALLS as usize;
        assert!(calls >= 1 && SIG_START[0] == 0, "the first signature search does not start at offset 0");
        let mut c = 1;
        while c < SIG_LOG_N {
            if c < calls && SIG_HIT[c - 1] != usize::MAX {
                let h = SIG_HIT[c - 1];
                let mut at_stream_end = false;
                let mut k = 0;
                while k < HITS { if stream_end[k] != usize::MAX && stream_end[k] == SIG_START[c] && stream_end[k] > h { at_stream_end = true; } k += 1; }
                assert!(SIG_START[c] <= h + 1 || at_stream_end, "offsets behind a signature hit are skipped although no stream was accepted there (an embedded stream starting in the skipped range is never found)");
                assert!(SIG_START[c] > h || at_stream_end, "the search does not move past a rejected hit");
            }
            c += 1;
        }
    }
    kani::cover!(streams == HITS, "every hit accepted");
    kani::cover!(first_zlib_accept || (streams == 0 && n > 2), "nothing accepted");
    core::mem::forget(locs);
}
macro_rules! scan_c { ($($(#[$m:meta])* $n:ident: $h:expr;)*) => { $( kproof! {
    $(#[$m])*
    #[kani::stub(crate::scan_deflate::next_signature, contract_next_signature)]
    #[kani::stub(std::vec::Vec::push, crate::verif_common::stub_vec_push_split)]
    #[kani::stub(crate::preflate_container::decompress_deflate_stream, contract_decompress_light)]
    #[kani::stub(crate::scan_deflate::skip_gzip_header, contract_skip_gzip_any)]
    #[kani::stub(crate::scan_deflate::parse_zip_stream, contract_parse_zip_light)]
    #[kani::stub(crate::idat_parse::parse_idat, contract_parse_idat_one)]
    fn $n() { scan_cursor::<$h>(); }
} )* } }
scan_c! {
    /// K01s-1: one signature hit of any kind anywhere in a file of any length <= 1100, every contract-allowed outcome
    k01s_scan_cursor_1: 1;
    /// K01s-2: two hits (the second anywhere at or after the cursor the first left: e.g. "IDAT" right behind a zlib stream)
    k01s_scan_cursor_2: 2;
    k01s_scan_cursor_3: 3;
}
kproof! {
    /// K01s-step: ONE loop iteration of the scanner from an arbitrary reachable cursor state (see FIRST_ZLIB_ACCEPT):
    /// with k01s_scan_cursor_1 (state prev_index == 0) this is the inductive step for files with any number of hits
    #[kani::stub(crate::scan_deflate::next_signature, contract_next_signature)]
    #[kani::stub(std::vec::Vec::push, crate::verif_common::stub_vec_push_split)]
    #[kani::stub(crate::preflate_container::decompress_deflate_stream, contract_decompress_light)]
    #[kani::stub(crate::scan_deflate::skip_gzip_header, contract_skip_gzip_any)]
    #[kani::stub(crate::scan_deflate::parse_zip_stream, contract_parse_zip_light)]
    #[kani::stub(crate::idat_parse::parse_idat, contract_parse_idat_one)]
    fn k01s_scan_step() { scan_cursor_x::<2>(true); }
}

kproof! {
    /// K01n: the contract used above, discharged on the real next_signature: a result of None leaves the index
    /// untouched; Some moves it forward to a position <= len - 2 that holds a signature, and skips no signature
    fn k01n_next_signature_contract() {
        let d: [u8; 5] = kani::any();
        let n: usize = kani::any();
        kani::assume(n <= 5);
        let start: usize = kani::any();
        kani::assume(start <= 6);
        let mut index = start;
        let r = next_signature(&d[..n], &mut index);
        let is_sig = |a: u8, b: u8| (a == 0x78 && (b == 0x01 || b == 0x5e || b == 0x9c || b == 0xda)) || (a == 0x50 && b == 0x4b) || (a == 0x1f && b == 0x8b) || (a == 0x49 && b == 0x44);
        match r {
            None => {
                assert!(index == start, "None must leave the cursor untouched");
                let mut i = 0;
                while i + 1 < 5 { if i >= start && i + 1 < n { assert!(!is_sig(d[i], d[i + 1]), "a signature was skipped"); } i += 1; }
            }
            Some(_) => {
                assert!(n >= 2 && index >= start && index <= n - 2, "cursor outside start..=len-2");
                assert!(is_sig(d[index], d[index + 1]));
                let mut i = 0;
                while i + 1 < 5 { if i >= start && i < index { assert!(!is_sig(d[i], d[i + 1]), "an earlier signature was skipped"); } i += 1; }
            }
        }
        kani::cover!(r.is_some() && index == 3, "hit at the last pair");
        kani::cover!(r.is_none() && start > n, "cursor already past the end");
    }
}
