//! child of `scan_deflate`: scanner loop (tiling, cursor arithmetic), header parsers (C01, C05, C06)
#![allow(unused_imports, dead_code)]
use super::*;
use crate::add_policy_estimator::DictionaryAddPolicy;
use crate::preflate_parameter_estimator::{PreflateHuffStrategy, PreflateParameters, PreflateStrategy};
use crate::verif_common::*;

fn dummy_params() -> PreflateParameters {
    PreflateParameters { huff_strategy: PreflateHuffStrategy::Dynamic, predictor: nodict_predictor_params(PreflateStrategy::Store) }
}

/// CONTRACT of decompress_deflate_stream as the scanner relies on it (discharged for the parser
/// by k07a/k07b/k03e: compressed_size is the byte cursor after the last block, hence in 1..=len):
///   Err, or Ok(r) with 1 <= r.compressed_size <= input.len(); plaintext on either side of 1024.
pub fn contract_decompress(compressed_data: &[u8], _verify: bool, _loglevel: u32) -> core::result::Result<DecompressResult, crate::preflate_error::PreflateError> {
    if compressed_data.is_empty() || kani::any() {
        return Err(crate::preflate_error::PreflateError::new(ExitCode::InvalidDeflate, ""));
    }
    let cs: usize = kani::any();
    kani::assume(cs >= 1 && cs <= compressed_data.len());
    let big: bool = kani::any();
    Ok(DecompressResult {
        plain_text: if big { vec![0u8; 1025] } else { vec![0u8; 1024] },
        prediction_corrections: Vec::new(),
        compressed_size: cs,
        parameters: dummy_params(),
    })
}

/// CONTRACT of skip_gzip_header (discharged by k01_gzip_hdr_16): Err, or Ok after consuming >= 10 bytes
pub fn contract_skip_gzip<R: Read>(reader: &mut R) -> Result<()> {
    let k: usize = kani::any();
    kani::assume(k >= 10 && k <= 16);
    let mut b = [0u8; 16];
    if reader.read_exact(&mut b[..k]).is_err() || kani::any() {
        return err_exit_code(ExitCode::InvalidDeflate, "");
    }
    Ok(())
}

/// CONTRACT of parse_zip_stream (discharged by k01_zip_hdr_34 — which fails on the pinned tree, F3):
/// Err, or Ok((h, r)) with 30 <= h, 1 <= r.compressed_size, h + r.compressed_size <= contents.len()
pub fn contract_parse_zip(contents: &[u8]) -> Result<(usize, DecompressResult)> {
    if contents.len() < 31 || kani::any() {
        return err_exit_code(ExitCode::InvalidDeflate, "");
    }
    let h: usize = kani::any();
    kani::assume(h >= 30 && h < contents.len());
    let r = contract_decompress(&contents[h..], true, 0)?;
    Ok((h, r))
}

/// CONTRACT of parse_idat (discharged by k01e_idat_total): Err, or Ok with 12 <= total_chunk_length <= len
pub fn contract_parse_idat(png: &[u8], _lvl: u32) -> Result<(IdatContents, Vec<u8>)> {
    if png.len() < 12 || kani::any() {
        return err_exit_code(ExitCode::InvalidIDat, "");
    }
    let t: usize = kani::any();
    kani::assume(t >= 12 && t <= png.len());
    // the scanner's threshold is on total_chunk_length: let it be "large" or not independently of t
    Ok((IdatContents { chunk_sizes: Vec::new(), zlib_header: [0, 0], total_chunk_length: t, addler32: 0 }, vec![0u8; 1]))
}

/// real scanner loop, every file of exactly N bytes
fn scan_tiling<const N: usize>() {
    let data: [u8; N] = kani::any();
    let mut locs: Vec<BlockChunk> = Vec::new();
    split_into_deflate_streams(&data[..], &mut locs, 0);
    // what expand_zlib_chunks does with the result: slice literals out of the file
    let mut index = 0usize;
    let mut saw_stream = false;
    let mut i = 0;
    while i < locs.len() {
        match &locs[i] {
            BlockChunk::Literal(n) => {
                assert!(*n <= N - index, "literal chunk longer than the remaining file (expand would slice out of range)");
                index += *n;
            }
            BlockChunk::DeflateStream(r) => { index += r.compressed_size; saw_stream = true; }
            BlockChunk::IDATDeflate(id, _r) => { index += id.total_chunk_length; saw_stream = true; }
        }
        assert!(index <= N, "chunks overrun the file");
        i += 1;
    }
    assert!(index == N, "chunks do not tile the file");
    kani::cover!(saw_stream, "a stream chunk was emitted");
    kani::cover!(locs.len() >= 3, "literal, stream, literal");
    core::mem::forget(locs);
}

kproof! {
    /// K01a: scanner tiling, all 7-byte files, the four callees replaced by their contracts.
    /// MIN_BLOCKSIZE for the IDAT arm is compared with total_chunk_length, which is <= N here, so the
    /// IDAT *acceptance* branch is exercised by k01a_scan_idat_arm instead.
    #[kani::stub(crate::preflate_container::decompress_deflate_stream, contract_decompress)]
    #[kani::stub(crate::scan_deflate::skip_gzip_header, contract_skip_gzip)]
    #[kani::stub(crate::scan_deflate::parse_zip_stream, contract_parse_zip)]
    #[kani::stub(crate::idat_parse::parse_idat, contract_parse_idat)]
    fn k01a_scan_tiling_7() { scan_tiling::<7>(); }
}

/// the gzip header parser alone: all inputs of <= N bytes
fn gzip_hdr<const N: usize>() {
    let mut src = SrcEof::<N> { data: kani::any(), pos: 0, len: kani::any() };
    kani::assume(src.len <= N);
    let r = skip_gzip_header(&mut src);
    if r.is_ok() {
        assert!(src.pos >= 10 && src.pos <= src.len);
        assert!(src.data[2] == 8);
    }
    kani::cover!(r.is_ok() && src.data[3] & 0x1e == 0x1e, "all four optional fields present and accepted");
    kani::cover!(r.is_err(), "rejected");
}
kproof! { fn k01_gzip_hdr_16() { gzip_hdr::<16>(); } }

kproof! {
    /// zip local header parser with the analysis replaced by its contract: never panics, and
    /// Ok((h, r)) implies h + r.compressed_size <= len (what the scanner adds to its cursor)
    #[kani::stub(crate::preflate_container::decompress_deflate_stream, contract_decompress)]
    fn k01_zip_hdr_34() {
        let data: [u8; 34] = kani::any();
        let n: usize = kani::any();
        kani::assume(n <= 34);
        let r = parse_zip_stream(&data[..n]);
        if let Ok((h, res)) = &r {
            assert!(*h >= 30 && *h + res.compressed_size <= n);
        }
        kani::cover!(r.is_ok(), "accepted");
        kani::cover!(r.is_ok() && data[26] == 2 && data[28] == 1, "name and extra present");
        core::mem::forget(r);
    }
}
