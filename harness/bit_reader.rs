//! child of `bit_reader`: one step of the bit reader from an arbitrary valid state (C03, C07, C05)
#![allow(unused_imports, dead_code)]
use super::*;
use crate::verif_common::*;

kproof! {
    /// K07r: BitReader::get from ANY valid state (0..=8 buffered bits with arbitrary content) and any request of
    /// 0..=32 bits returns exactly the next bits of the stream, LSB first, consumes the minimal number of bytes
    /// and leaves the unread bits of the last byte buffered.  One inductive step: covers streams of any length.
    fn k07r_bitreader_step() {
        let mut src = Src::<5>::any();
        let data = src.data;
        let bit_count: u32 = kani::any();
        kani::assume(bit_count <= 8);
        let buffered: u32 = kani::any();
        kani::assume(buffered < (1u32 << bit_count));
        let cbit: u32 = kani::any();
        kani::assume(cbit <= 32);
        let mut br = BitReader { binary_reader: &mut src, bits_read: buffered, bit_count };
        let r = br.get(cbit).unwrap();
        let (left_bits, left_count) = (br.bits_read, br.bit_count);
        drop(br);
        // reference: the stream is `buffered` (bit_count bits) followed by data[0..], LSB first
        let mut stream: u64 = buffered as u64;
        let mut i = 0;
        while i < 5 { stream |= (data[i] as u64) << (bit_count + 8 * i as u32); i += 1; }
        let expect = if cbit == 0 { 0 } else { (stream & ((1u64 << cbit) - 1)) as u32 };
        assert!(r == expect, "bits returned differ from the stream");
        let need_bytes = if cbit <= bit_count { 0 } else { ((cbit - bit_count + 7) / 8) as usize };
        assert!(src.pos == need_bytes, "byte cursor is not minimal");
        let total = bit_count + 8 * need_bytes as u32;
        assert!(left_count == total - cbit && left_count <= 8, "wrong number of bits left in the buffer");
        let left_expect = ((stream >> cbit) & ((1u64 << left_count) - 1)) as u32;
        assert!(left_bits & ((1u32 << left_count) - 1) == left_expect, "buffered bits corrupted");
        kani::cover!(cbit == 32 && bit_count == 1, "32 bits spanning five bytes");
        kani::cover!(cbit == 13 && bit_count == 0, "13 extra bits from an empty buffer");
    }
}
