//! child of `statistical_codec`
#![allow(unused_imports, dead_code)]
use super::*;
use crate::verif_common::*;

kproof! {
    /// K04b: numbering of the enums that are written as VALUES (strategies, block types, tree code types),
    /// chunk tags, version and match constants equal the reference build's
    fn k04b_enum_discriminants() {
        // (the numbering of the codec's context enums is deliberately NOT compared: a permutation of
        // equally-initialised adaptive slots does not change the coded bytes)
        let c = crate::preflate_parameter_estimator::verif_export::enum_discriminants();
        let d = preflate_ref::preflate_parameter_estimator::verif_export::enum_discriminants();
        let mut i = 0;
        while i < 10 { assert!(c[i] == d[i], "strategy / block type numbering differs"); i += 1; }
        let e = crate::tree_predictor::verif_export::tct_discriminants();
        let f = preflate_ref::tree_predictor::verif_export::tct_discriminants();
        let mut i = 0;
        while i < 4 { assert!(e[i] == f[i]); i += 1; }
        let g = crate::preflate_container::verif_export::format_constants();
        let h = preflate_ref::preflate_container::verif_export::format_constants();
        let mut i = 0;
        while i < 4 { assert!(g[i] == h[i], "container tag constants differ"); i += 1; }
        let m = crate::preflate_constants::verif_export::misc();
        let n = preflate_ref::preflate_constants::verif_export::misc();
        let mut i = 0;
        while i < 4 { assert!(m[i] == n[i]); i += 1; }
        kani::cover!(true, "reached");
    }
}
