//! child of `cabac_codec`: C10 (correction codec lossless) over a tagged transparent channel.
//! The VP8 arithmetic coder is replaced by `Chan`, which records (bit, context-slot id) on
//! `put` and on `get` asserts that the decoder presents the *same* slot.  Everything above
//! the coder is the real code: PredictionCabacContext::{encode_*, decode_*, write_exp_encoded,
//! read_exp_value, write_bypass, read_bypass, flush_encode} and the cabac crate's provided
//! put_unary_encoded / put_n_bits / get_unary_encoded / get_n_bits.
#![allow(unused_imports, dead_code)]
use super::*;
use crate::verif_common::*;
use cabac::traits::{CabacReader, CabacWriter};

#[derive(Default, Clone, Copy)]
pub struct TagCtx {
    pub id: u16,
}

pub const CH_N: usize = 160;
pub const TAG_BYPASS: u16 = 0xffff;
pub struct Chan {
    pub bit: [bool; CH_N],
    pub tag: [u16; CH_N],
    pub n: usize,
    pub r: usize,
}
impl Chan {
    pub fn new() -> Self { Chan { bit: [false; CH_N], tag: [0; CH_N], n: 0, r: 0 } }
    fn push(&mut self, b: bool, t: u16) {
        assert!(self.n < CH_N, "channel capacity (harness bound)");
        self.bit[self.n] = b; self.tag[self.n] = t; self.n += 1;
    }
    fn pop(&mut self, t: u16) -> bool {
        assert!(self.r < self.n, "decoder reads more symbols than the encoder wrote");
        assert!(self.tag[self.r] == t, "decoder uses a different context slot than the encoder");
        let b = self.bit[self.r]; self.r += 1; b
    }
}
impl CabacWriter<TagCtx> for Chan {
    fn put_bypass(&mut self, v: bool) -> std::io::Result<()> { self.push(v, TAG_BYPASS); Ok(()) }
    fn put(&mut self, v: bool, c: &mut TagCtx) -> std::io::Result<()> { self.push(v, c.id); Ok(()) }
    fn finish(&mut self) -> std::io::Result<()> { Ok(()) }
}
impl CabacReader<TagCtx> for Chan {
    fn get_bypass(&mut self) -> std::io::Result<bool> { Ok(self.pop(TAG_BYPASS)) }
    fn get(&mut self, c: &mut TagCtx) -> std::io::Result<bool> { Ok(self.pop(c.id)) }
}

/// a PredictionCabacContext whose every adaptive slot carries a unique id
pub fn tagged_ctx() -> PredictionCabacContext<TagCtx> {
    let mut c = PredictionCabacContext::<TagCtx>::default();
    let mut i = 0;
    while i < 16 {
        c.default_encoding[i].id = i as u16;
        c.default_encoding_nbits[i].id = 16 + i as u16;
        i += 1;
    }
    let mut k = 0;
    while k < CodecCorrection::MAX as usize {
        let mut i = 0;
        while i < 8 {
            c.correction[k][i].id = (32 + k * 8 + i) as u16;
            c.correction_bits[k][i].id = (32 + 80 + k * 8 + i) as u16;
            i += 1;
        }
        k += 1;
    }
    c
}

pub fn any_correction_ctx() -> CodecCorrection {
    let k: u8 = kani::any();
    kani::assume(k < CodecCorrection::MAX as u8);
    match k {
        0 => CodecCorrection::TokenCount, 1 => CodecCorrection::NonZeroPadding, 2 => CodecCorrection::BlockTypeCorrection,
        3 => CodecCorrection::LenCorrection, 4 => CodecCorrection::DistOnlyCorrection, 5 => CodecCorrection::DistAfterLenCorrection,
        6 => CodecCorrection::TreeCodeBitLengthCorrection, 7 => CodecCorrection::LDTypeCorrection,
        8 => CodecCorrection::RepeatCountCorrection, _ => CodecCorrection::LDBitLengthCorrection,
    }
}
pub fn any_misprediction_ctx() -> CodecMisprediction {
    let k: u8 = kani::any();
    kani::assume(k < CodecMisprediction::MAX as u8);
    match k {
        0 => CodecMisprediction::EOFMisprediction, 1 => CodecMisprediction::LiteralPredictionWrong,
        2 => CodecMisprediction::ReferencePredictionWrong, 3 => CodecMisprediction::IrregularLen258,
        4 => CodecMisprediction::TreeCodeCountMisprediction, 5 => CodecMisprediction::LiteralCountMisprediction,
        _ => CodecMisprediction::DistanceCountMisprediction,
    }
}

kproof! {
    /// K10a: read_exp_value(write_exp_encoded(v)) == v for every v < 2^31, 8-slot contexts
    fn k10a_exp_pair_8() {
        let v: u32 = kani::any();
        kani::assume(v < (1u32 << 31));
        let mut e = tagged_ctx();
        let mut d = tagged_ctx();
        let mut ch = Chan::new();
        PredictionCabacContext::<TagCtx>::write_exp_encoded(v, &mut e.correction[3], &mut e.correction_bits[3], &mut ch);
        let r = PredictionCabacContext::<TagCtx>::read_exp_value(&mut d.correction[3], &mut d.correction_bits[3], &mut ch);
        assert!(r == v);
        assert!(ch.r == ch.n);
        kani::cover!(v >= (1u32 << 30), "31-bit value");
        kani::cover!(v == 0, "zero");
    }
}
kproof! {
    /// K10a': the 16-slot instance used for default runs
    fn k10a_exp_pair_16() {
        let v: u32 = kani::any();
        kani::assume(v < (1u32 << 31));
        let mut e = tagged_ctx();
        let mut d = tagged_ctx();
        let mut ch = Chan::new();
        PredictionCabacContext::<TagCtx>::write_exp_encoded(v, &mut e.default_encoding, &mut e.default_encoding_nbits, &mut ch);
        let r = PredictionCabacContext::<TagCtx>::read_exp_value(&mut d.default_encoding, &mut d.default_encoding_nbits, &mut ch);
        assert!(r == v);
        assert!(ch.r == ch.n);
        kani::cover!(v >= (1u32 << 30), "31-bit value");
    }
}

#[derive(Clone, Copy)]
pub struct Op { kind: u8, a: u32, b: u8, mc: CodecMisprediction }

// NOTE (measured): indexing `self.correction[context as usize]` with a *symbolic* context and then
// taking `&mut contexts[0]` made CBMC 6.11 report a context-slot mismatch that does not reproduce
// natively (elements 1.. right, element 0 wrong; concrete index fine).  Correction contexts are
// therefore *concrete* at every call site (one harness per context for single operations, a fixed
// per-position pattern inside sequences).  Misprediction contexts stay symbolic.
fn any_op(kind: u8, vmax: u32, wmax: u8) -> Op {
    let a: u32 = kani::any();
    let b: u8 = kani::any();
    match kind {
        0 => { kani::assume(b >= 1 && b <= wmax); kani::assume(a < (1u32 << b)); }
        1 => { kani::assume(a <= 1); }
        _ => { kani::assume(a < vmax); }
    }
    Op { kind, a, b, mc: any_misprediction_ctx() }
}
#[inline(always)]
fn enc(c: &mut PredictionCabacContext<TagCtx>, ch: &mut Chan, o: &Op, cc: CodecCorrection) {
    match o.kind {
        0 => c.encode_value(o.a as u16, o.b, ch),
        1 => c.encode_misprediction(o.a != 0, o.mc, ch),
        _ => c.encode_correction(o.a, cc, ch),
    }
}
#[inline(always)]
fn dec_check(c: &mut PredictionCabacContext<TagCtx>, ch: &mut Chan, o: &Op, cc: CodecCorrection) {
    match o.kind {
        0 => assert!(c.decode_value(o.b, ch) as u32 == o.a, "fixed-width value differs"),
        1 => assert!(c.decode_misprediction(o.mc, ch) == (o.a != 0), "misprediction flag differs"),
        _ => assert!(c.decode_correction(cc, ch) == o.a, "correction value differs"),
    }
}

/// single operation of a concrete kind (and concrete correction context), full value range
fn single(kind: u8, cc: CodecCorrection) {
    let o = any_op(kind, 1u32 << 31, 16);
    let mut e = tagged_ctx();
    let mut d = tagged_ctx();
    let mut ch = Chan::new();
    enc(&mut e, &mut ch, &o, cc);
    e.flush_encode(&mut ch);
    dec_check(&mut d, &mut ch, &o, cc);
    assert!(ch.r == ch.n, "channel not fully consumed");
    kani::cover!(o.a != 0, "non-default");
    kani::cover!(o.a == 0, "default / zero");
}
kproof! { fn k10b_single_value() { single(0, CodecCorrection::TokenCount); } }
kproof! { fn k10b_single_misprediction() { single(1, CodecCorrection::TokenCount); } }
macro_rules! single_corr { ($($n:ident: $c:ident;)*) => { $( kproof! { fn $n() { single(2, CodecCorrection::$c); } } )* } }
single_corr! {
    k10b_single_correction_0: TokenCount; k10b_single_correction_1: NonZeroPadding; k10b_single_correction_2: BlockTypeCorrection;
    k10b_single_correction_3: LenCorrection; k10b_single_correction_4: DistOnlyCorrection; k10b_single_correction_5: DistAfterLenCorrection;
    k10b_single_correction_6: TreeCodeBitLengthCorrection; k10b_single_correction_7: LDTypeCorrection;
    k10b_single_correction_8: RepeatCountCorrection; k10b_single_correction_9: LDBitLengthCorrection;
}

/// all sequences of three operations with concrete kinds; correction contexts by position:
/// (DistOnlyCorrection, LenCorrection, LenCorrection) = one change of context and one repeat
fn proto3(k0: u8, k1: u8, k2: u8, vmax: u32, wmax: u8) {
    let ops = [any_op(k0, vmax, wmax), any_op(k1, vmax, wmax), any_op(k2, vmax, wmax)];
    let mut e = tagged_ctx();
    let mut d = tagged_ctx();
    let mut ch = Chan::new();
    enc(&mut e, &mut ch, &ops[0], CodecCorrection::DistOnlyCorrection);
    enc(&mut e, &mut ch, &ops[1], CodecCorrection::LenCorrection);
    enc(&mut e, &mut ch, &ops[2], CodecCorrection::LenCorrection);
    e.flush_encode(&mut ch);
    dec_check(&mut d, &mut ch, &ops[0], CodecCorrection::DistOnlyCorrection);
    dec_check(&mut d, &mut ch, &ops[1], CodecCorrection::LenCorrection);
    dec_check(&mut d, &mut ch, &ops[2], CodecCorrection::LenCorrection);
    assert!(ch.r == ch.n, "channel not fully consumed");
    assert!(d.default_count == 0);
    kani::cover!(ops[0].a == 0 && ops[1].a == 0 && ops[2].a == 0, "all defaults");
    kani::cover!(ops[0].a != 0 && ops[1].a != 0 && ops[2].a != 0, "no defaults");
}
macro_rules! proto3_h { ($($n:ident: $a:expr, $b:expr, $c:expr;)*) => { $( kproof! { fn $n() { proto3($a, $b, $c, 64, 4); } } )* } }
proto3_h! {
    k10c_p000: 0,0,0; k10c_p001: 0,0,1; k10c_p002: 0,0,2; k10c_p010: 0,1,0; k10c_p011: 0,1,1; k10c_p012: 0,1,2;
    k10c_p020: 0,2,0; k10c_p021: 0,2,1; k10c_p022: 0,2,2; k10c_p100: 1,0,0; k10c_p101: 1,0,1; k10c_p102: 1,0,2;
    k10c_p110: 1,1,0; k10c_p111: 1,1,1; k10c_p112: 1,1,2; k10c_p120: 1,2,0; k10c_p121: 1,2,1; k10c_p122: 1,2,2;
    k10c_p200: 2,0,0; k10c_p201: 2,0,1; k10c_p202: 2,0,2; k10c_p210: 2,1,0; k10c_p211: 2,1,1; k10c_p212: 2,1,2;
    k10c_p220: 2,2,0; k10c_p221: 2,2,1; k10c_p222: 2,2,2;
}

kproof! {
    /// K02g: decode_difference(p, encode_difference(p, a)) == a
    fn k02g_diff_coding() {
        let p: u32 = kani::any();
        let a: u32 = kani::any();
        kani::assume(p < (1u32 << 30) && a < (1u32 << 30));
        let e = encode_difference(p, a);
        assert!(e < (1u32 << 31));
        assert!(decode_difference(p, e) == a);
        kani::cover!(a > p, "positive"); kani::cover!(a < p, "negative");
    }
}

kproof! {
    /// K04h: the (bit, context-slot) symbols handed to the arithmetic coder for two operations + finish
    /// equal the reference build's: binarisation, context choice, default-run bookkeeping are format
    fn k04h_cabac_symbols_equiv() {
        let k0: u8 = kani::any(); let k1: u8 = kani::any();
        kani::assume(k0 <= 2 && k1 <= 2);
        let a0: u32 = kani::any(); let a1: u32 = kani::any();
        let b0: u8 = kani::any(); let b1: u8 = kani::any();
        kani::assume(b0 >= 1 && b0 <= 4 && b1 >= 1 && b1 <= 4 && a0 < 16 && a1 < 16);
        let (xb, xt, xn) = super::verif_export::op_symbols(k0, a0, b0, k1, a1, b1);
        let (yb, yt, yn) = preflate_ref::cabac_codec::verif_export::op_symbols(k0, a0, b0, k1, a1, b1);
        assert!(xn == yn, "number of coded symbols differs from the reference build");
        // same bits, same bypass/adaptive split, and the same PARTITION of symbols into adaptive slots
        // (slot identities may be renamed consistently: all slots start in the same state)
        let mut i = 0;
        while i < 24 {
            if i < xn {
                assert!(xb[i] == yb[i], "coded symbol differs from the reference build");
                assert!((xt[i] == 0xffff) == (yt[i] == 0xffff), "bypass / adaptive coding differs from the reference build");
                let mut j = 0;
                while j < 24 {
                    if j < i { assert!((xt[i] == xt[j]) == (yt[i] == yt[j]), "context sharing between coded symbols differs from the reference build"); }
                    j += 1;
                }
            }
            i += 1;
        }
        assert!(xn <= 24);
        let p: u32 = kani::any(); let a: u32 = kani::any();
        kani::assume(p < (1 << 30) && a < (1 << 30));
        assert!(super::verif_export::diff_enc(p, a) == preflate_ref::cabac_codec::verif_export::diff_enc(p, a));
        kani::assume(a & 1 == 1 || (a >> 1) <= p); // decode_difference's domain: what encode_difference can produce for this p
        assert!(super::verif_export::diff_dec(p, a) == preflate_ref::cabac_codec::verif_export::diff_dec(p, a));
        kani::cover!(k0 == 2 && k1 == 1 && a0 > 9, "correction then flag");
    }
}

/// channel that also records whether the coder was terminated
pub struct FinChan { pub ch: Chan, pub finished: bool }
impl CabacWriter<TagCtx> for FinChan {
    fn put_bypass(&mut self, v: bool) -> std::io::Result<()> { self.ch.put_bypass(v) }
    fn put(&mut self, v: bool, c: &mut TagCtx) -> std::io::Result<()> { self.ch.put(v, c) }
    fn finish(&mut self) -> std::io::Result<()> { self.finished = true; Ok(()) }
}
impl CabacReader<TagCtx> for FinChan {
    fn get_bypass(&mut self) -> std::io::Result<bool> { self.ch.get_bypass() }
    fn get(&mut self, c: &mut TagCtx) -> std::io::Result<bool> { self.ch.get(c) }
}
kproof! {
    /// K10d: the PUBLIC encoder/decoder pair (PredictionEncoderCabac / PredictionDecoderCabac and their trait
    /// impls): two operations then finish() — the arithmetic coder is always terminated by finish(), every
    /// pending default is flushed, and the decoder reads the operations back
    fn k10d_public_codec_finish() {
        let k0: u8 = kani::any(); let k1: u8 = kani::any();
        kani::assume(k0 <= 2 && k1 <= 2);
        let o0 = any_op(k0, 16, 4);
        let o1 = any_op(k1, 16, 4);
        let mut enc = PredictionEncoderCabac::<FinChan, TagCtx>::new(FinChan { ch: Chan::new(), finished: false });
        for o in [&o0, &o1] {
            match o.kind {
                0 => enc.encode_value(o.a as u16, o.b),
                1 => enc.encode_misprediction(o.mc, o.a != 0),
                _ => enc.encode_correction(CodecCorrection::LenCorrection, o.a),
            }
        }
        enc.finish();
        assert!(enc.writer.finished, "finish() did not terminate the arithmetic coder");
        assert!(enc.context.default_count == 0, "finish() left a default run unflushed");
        let fc = FinChan { ch: Chan { bit: enc.writer.ch.bit, tag: enc.writer.ch.tag, n: enc.writer.ch.n, r: 0 }, finished: false };
        let mut dec = PredictionDecoderCabac::<FinChan, TagCtx>::new(fc);
        for o in [&o0, &o1] {
            match o.kind {
                0 => assert!(dec.decode_value(o.b) as u32 == o.a),
                1 => assert!(dec.decode_misprediction(o.mc) == (o.a != 0)),
                _ => assert!(dec.decode_correction(CodecCorrection::LenCorrection) == o.a),
            }
        }
        assert!(dec.reader.ch.r == dec.reader.ch.n, "channel not fully consumed");
        kani::cover!(o1.kind == 0, "a fixed-width value right before finish");
        kani::cover!(o1.kind == 1 && o1.a == 0, "a default right before finish");
    }
}
