//! child of `hash_chain_holder`: the real HashChainHolderImpl (match_token_offset, calculate_hops,
//! hop_match, prefix_compare, window/limit arithmetic) instantiated over a MODEL hash chain plugged
//! in at the HashImplementation / HashChain trait seam (DESIGN §1.1).
//!
//! Model chain contract (= everything the real chains guarantee to the holder):
//!   * `iterate(input, offset)` yields a finite list of distances d with 1 <= d <= pos+offset
//!     (a chain entry never points before the start of the text) — in ANY order, possibly repeated
//!     (libdeflate's 3-byte head followed by the 4-byte chain is not monotone);
//!   * the list is a function of (position, offset) only: the same walk on the analysis side and on
//!     the reconstruction side (determinism);
//!   * `iterate` is only legal when the real chain's `get_hash` would not index out of range:
//!     at least num_hash_bytes bytes at cur_chars(0), and also at cur_chars(1) for offset 1 — asserted.
//!   * `update_hash` is a no-op (the model list is solver-chosen, i.e. any dictionary content,
//!     add policy and hash function).
#![allow(unused_imports, dead_code)]
use super::*;
use crate::preflate_token::PreflateToken;
use crate::verif_common::*;

pub const MC_T: usize = 12; // max text length
pub const MC_K: usize = 3; // max candidates per (position, offset)

#[derive(Clone, Copy)]
pub struct ModelChain {
    pub dist: [[[u32; MC_K]; 2]; MC_T + 1],
    pub cnt: [[u8; 2]; MC_T + 1],
    pub nhb: usize,
}

impl ModelChain {
    /// every chain content allowed by the contract, for a text of `len` bytes
    pub fn any(len: usize, kmax: usize, nhb: usize) -> Self {
        unsafe { UPD_N = [0; 2]; UPD_SIDE = 0; }
        let m = ModelChain { dist: kani::any(), cnt: kani::any(), nhb };
        let mut p = 0;
        while p <= MC_T {
            let mut o = 0;
            while o < 2 {
                kani::assume(m.cnt[p][o] as usize <= kmax);
                if p + o == 0 { kani::assume(m.cnt[p][o] == 0); }
                let mut k = 0;
                while k < MC_K {
                    if k < m.cnt[p][o] as usize {
                        kani::assume(m.dist[p][o][k] >= 1 && m.dist[p][o][k] as usize <= p + o);
                    }
                    k += 1;
                }
                o += 1;
            }
            p += 1;
        }
        let _ = len;
        m
    }
}

impl HashChain for ModelChain {
    fn iterate<'a>(&'a self, input: &PreflateInput, offset: u32) -> impl Iterator<Item = u32> + 'a {
        assert!(offset <= 1);
        // the real chains call get_hash(input.cur_chars(0)) and, for offset 1, get_hash(input.cur_chars(1))
        assert!(input.remaining() as usize >= self.nhb, "real chain would hash fewer than num_hash_bytes bytes at offset 0");
        if offset == 1 {
            assert!(input.remaining() as usize >= self.nhb + 1, "real chain would hash fewer than num_hash_bytes bytes at offset 1");
        }
        let p = input.pos() as usize;
        assert!(p <= MC_T);
        let row = self.dist[p][offset as usize];
        let n = self.cnt[p][offset as usize] as usize;
        let mut i = 0;
        std::iter::from_fn(move || {
            if i < n {
                i += 1;
                Some(row[i - 1])
            } else {
                None
            }
        })
    }
    fn update_hash(&mut self, input: &[u8], pos: u32, length: u32) {
        // the real update_chain debug_asserts this
        assert!(length as usize <= input.len(), "update_hash length exceeds the remaining input");
        assert!(length <= crate::hash_chain::MAX_UPDATE_HASH_BATCH);
        // log the positions the real update_chain would insert (it inserts nothing when the batch reaches
        // into the last num_hash_bytes-1 bytes): both sides of a mirror must drive the dictionary identically
        if length as usize + self.nhb - 1 >= input.len() {
            return;
        }
        unsafe {
            let s = UPD_SIDE;
            let mut i = 0;
            while i < length {
                if UPD_N[s] < UPD_CAP { UPD_LOG[s][UPD_N[s]] = pos + i; }
                UPD_N[s] += 1;
                i += 1;
            }
        }
    }
    fn checksum(&self, _c: &mut DebugHash) {}
}

pub static mut MODEL: Option<ModelChain> = None;
pub const UPD_CAP: usize = 16;
// NOTE (Kani 0.68): a `static mut` whose initial bytes equal those of some constant allocation can be MERGED with that
// constant by the code generator (seen: `static mut UPD_SIDE: usize = 0` aliased with alloc::raw_vec's ZERO_CAP, so that
// after `UPD_SIDE = 1` every `Vec::new()` had capacity 1; whether it happens depends on symbol order, i.e. on the build
// path).  Every mutable static of the harnesses therefore starts from a unique non-trivial bit pattern and is set
// explicitly before use.
pub static mut UPD_LOG: [[u32; UPD_CAP]; 2] = [[0xA5A5_0001; UPD_CAP]; 2];
pub static mut UPD_N: [usize; 2] = [0x5EED_0000_0000_0002; 2];
pub static mut UPD_SIDE: usize = 0x5EED_0000_0000_0003;
/// the two sides inserted exactly the same positions, in the same order
pub fn same_dictionary_updates() -> bool {
    unsafe {
        if UPD_N[0] != UPD_N[1] || UPD_N[0] > UPD_CAP { return false; }
        let mut i = 0;
        while i < UPD_CAP { if i < UPD_N[0] && UPD_LOG[0][i] != UPD_LOG[1][i] { return false; } i += 1; }
        true
    }
}

#[derive(Default, Copy, Clone)]
pub struct ModelHash3 {}
#[derive(Default, Copy, Clone)]
pub struct ModelHash4 {}
impl HashImplementation for ModelHash3 {
    type HashChainType = ModelChain;
    fn get_hash(&self, _b: &[u8]) -> u16 { 0 }
    fn num_hash_bytes() -> usize { 3 }
    fn new_hash_chain(self) -> ModelChain { unsafe { MODEL.unwrap() } }
    fn algorithm(&self) -> HashAlgorithm { HashAlgorithm::RandomVector }
}
impl HashImplementation for ModelHash4 {
    type HashChainType = ModelChain;
    fn get_hash(&self, _b: &[u8]) -> u16 { 0 }
    fn num_hash_bytes() -> usize { 4 }
    fn new_hash_chain(self) -> ModelChain { unsafe { MODEL.unwrap() } }
    fn algorithm(&self) -> HashAlgorithm { HashAlgorithm::Crc32cHash }
}

/// the real holder over the model chain (3- or 4-byte hash width chosen by the caller)
pub fn model_holder3(params: &TokenPredictorParameters, m: ModelChain) -> HashChainHolderImpl<ModelHash3> {
    HashChainHolderImpl::<ModelHash3> { hash: m, params: *params, window_bytes: 1 << params.window_bits }
}
pub fn model_holder4(params: &TokenPredictorParameters, m: ModelChain) -> HashChainHolderImpl<ModelHash4> {
    HashChainHolderImpl::<ModelHash4> { hash: m, params: *params, window_bytes: 1 << params.window_bits }
}
pub fn boxed_model_holder(params: &TokenPredictorParameters, m: ModelChain, four: bool) -> Box<dyn HashChainHolder> {
    if four { Box::new(model_holder4(params, m)) } else { Box::new(model_holder3(params, m)) }
}

/// valid_reference(text, pos, len, dist): what decode_block guarantees for every reference it emits
pub fn valid_reference(text: &[u8], pos: usize, len: usize, dist: usize) -> bool {
    if !(len >= 3 && len <= 258 && dist >= 1 && dist <= pos && pos + len <= text.len()) {
        return false;
    }
    let mut i = 0;
    while i < MC_T {
        if i < len && text[pos - dist + i] != text[pos + i] { return false; }
        i += 1;
    }
    true
}

fn hops_inverse(four: bool, kmax: usize) {
    let text: [u8; MC_T] = kani::any();
    let len: usize = kani::any();
    kani::assume(len >= 4 && len <= MC_T);
    let p = any_predictor_params();
    let m = ModelChain::any(len, kmax, if four { 4 } else { 3 });
    let pos: usize = kani::any();
    let rl: usize = kani::any();
    let rd: usize = kani::any();
    kani::assume(pos >= 1 && pos < len);
    kani::assume(valid_reference(&text[..len], pos, rl, rd));
    // callers reach calculate_hops only after predict_token/repredict_reference walked the chain at
    // this position, which needs num_hash_bytes bytes (match_token_offset returns NoInput otherwise)
    kani::assume(len - pos >= if four { 4 } else { 3 });
    let mut input = PreflateInput::new(&text[..len]);
    input.advance(pos as u32);
    let target = PreflateTokenReference::new(rl as u32, rd as u32, false);
    let (hops, back) = if four {
        let h = model_holder4(&p, m);
        let r = h.calculate_hops(&target, &input);
        match r { Ok(hh) => (Some(hh), Some(h.hop_match(rl as u32, hh, &input))), Err(e) => { core::mem::forget(e); (None, None) } }
    } else {
        let h = model_holder3(&p, m);
        let r = h.calculate_hops(&target, &input);
        match r { Ok(hh) => (Some(hh), Some(h.hop_match(rl as u32, hh, &input))), Err(e) => { core::mem::forget(e); (None, None) } }
    };
    if let Some(hh) = hops {
        assert!(hh >= 1);
        match back.unwrap() {
            Ok(d) => assert!(d as usize == rd, "hop_match does not invert calculate_hops"),
            Err(e) => { core::mem::forget(e); assert!(false, "hop_match fails on a hop count calculate_hops produced"); }
        }
    }
    kani::cover!(hops == Some(2), "hops == 2");
    kani::cover!(hops.is_none(), "calculate_hops reports not found");
}
kproof! { fn k02d_hops_inverse_h3() { hops_inverse(false, 3); } }
kproof! { fn k02d_hops_inverse_h4() { hops_inverse(true, 3); } }

/// K05e: match_token_offset::<0|1> is total under the callers' preconditions
fn match_total(four: bool, offset1: bool) {
    let text: [u8; MC_T] = kani::any();
    let len: usize = kani::any();
    kani::assume(len >= 3 && len <= MC_T);
    let p = any_predictor_params();
    let m = ModelChain::any(len, 3, if four { 4 } else { 3 });
    let pos: usize = kani::any();
    kani::assume(pos >= 1 && pos < len);
    let mut input = PreflateInput::new(&text[..len]);
    input.advance(pos as u32);
    // predict_token's preconditions
    kani::assume(input.remaining() >= 3);
    let (prev_len, depth): (u32, u32) = if offset1 {
        // match_token_1(match_token.len(), max_depth): a match of that length exists at offset 0,
        // remaining >= len + 2, max_depth = max_chain or max_chain >> 2
        let pl: u32 = kani::any();
        kani::assume(pl >= 3 && pl <= 258 && input.remaining() >= pl + 2);
        let shifted: bool = kani::any();
        let d = if shifted { p.max_chain >> 2 } else { p.max_chain };
        // recommend(): good_length >= 4 rows have max_chain >= 16 only together with lazy matching
        (pl, d)
    } else {
        (0, p.max_chain)
    };
    kani::assume(depth >= 1);
    let r = if four {
        let h = model_holder4(&p, m);
        if offset1 { h.match_token_offset::<1>(prev_len, depth, &input) } else { h.match_token_offset::<0>(prev_len, depth, &input) }
    } else {
        let h = model_holder3(&p, m);
        if offset1 { h.match_token_offset::<1>(prev_len, depth, &input) } else { h.match_token_offset::<0>(prev_len, depth, &input) }
    };
    if let MatchResult::Success(t) = r {
        // what commit_token / the writer rely on
        let o = if offset1 { 1 } else { 0 };
        assert!(t.len() >= 3 && t.len() > prev_len && (t.dist() as usize) <= pos + o && pos + o + t.len() as usize <= len);
        assert!(valid_reference(&text[..len], pos + o, t.len() as usize, t.dist() as usize), "predicted reference does not match the text");
    }
    kani::cover!(matches!(r, MatchResult::Success(_)), "a match was found");
}
kproof! { fn k05e_match_total_h3_o0() { match_total(false, false); } }
kproof! { fn k05e_match_total_h3_o1() { match_total(false, true); } }
kproof! { fn k05e_match_total_h4_o0() { match_total(true, false); } }
kproof! { fn k05e_match_total_h4_o1() { match_total(true, true); } }

// ---------------------------------------------------------------------------
// K04n: the REAL match search and hop counting give the reference build's answer for the same text, cursor, parameters
// and candidate lists (C04: window / start-of-file / 3-byte distance limits, nice-length cut-off, chain-depth accounting,
// hop numbering are all part of the stored format: the reader replays them).  Two geometries: a short text with the
// cursor anywhere, and a cursor 252 bytes into a 258-byte text with window_bits = 9, where the window limit
// (2^9 - 262 + 1 = 251) lies inside the reachable distances.
// ---------------------------------------------------------------------------
fn matcher_equiv<const T: usize>(fixed_pos: Option<usize>, what: u8) {
    let text: [u8; T] = kani::any();
    let mut p = any_predictor_params();
    if fixed_pos.is_some() { p.window_bits = 9; }
    let pos: usize = match fixed_pos { Some(x) => x, None => kani::any() };
    kani::assume(pos >= 1 && pos <= T - 3);
    let off = if what == 1 { 1usize } else { 0 };
    let dist: [[u32; 3]; 2] = kani::any();
    let cnt: [u8; 2] = kani::any();
    kani::assume(cnt[0] <= 3 && cnt[1] <= 3);
    // the real chain only yields distances inside the text seen so far
    let mut i = 0;
    while i < 3 { kani::assume(dist[0][i] >= 1 && dist[0][i] as usize <= pos && dist[1][i] >= 1 && dist[1][i] as usize <= pos + 1); i += 1; }
    let (a, b): (u32, u32) = match what {
        0 => { kani::assume(p.max_chain >= 1); (0, p.max_chain) }
        1 => {
            let pl: u32 = kani::any();
            kani::assume(pl >= 3 && pl <= 258 && (T - pos) as u32 >= pl + 2);
            let d = if kani::any() { p.max_chain >> 2 } else { p.max_chain };
            kani::assume(d >= 1);
            (pl, d)
        }
        2 => {
            let l: usize = kani::any(); let d: usize = kani::any();
            kani::assume(valid_reference(&text[..], pos, l, d));
            (l as u32, d as u32)
        }
        _ => {
            let l: u32 = kani::any(); let h: u32 = kani::any();
            kani::assume(l >= 3 && l <= 258 && l as usize <= T - pos && h >= 1 && h <= 8);
            (l, h)
        }
    };
    let _ = off;
    let pf = flat_predictor_params(&p);
    let x = super::verif_export::matcher_query(&text[..], pos as u32, &pf, &dist, &cnt, what, a, b);
    let y = preflate_ref::hash_chain_holder::verif_export::matcher_query(&text[..], pos as u32, &pf, &dist, &cnt, what, a, b);
    assert!(x[0] == y[0] && x[1] == y[1] && x[2] == y[2], "the match search / hop counting answers differently from the reference build");
    kani::cover!(x[0] == 0, "a match / hop count / distance was returned");
    kani::cover!(x[0] != 0, "no result");
}
macro_rules! k04n { ($name:ident, $t:expr, $pos:expr, $what:expr) => {
    kproof! {
        #[kani::stub(preflate_ref::preflate_error::PreflateError::add_context, crate::verif_common::stub_ref_add_context)]
        fn $name() { matcher_equiv::<$t>($pos, $what); }
    }
} }
k04n!(k04n_match_equiv_o0, 12, None, 0);
k04n!(k04n_match_equiv_o1, 12, None, 1);
k04n!(k04n_hops_equiv, 12, None, 2);
k04n!(k04n_hop_match_equiv, 12, None, 3);
k04n!(k04n_match_equiv_o0_far, 258, Some(252), 0);
k04n!(k04n_match_equiv_o1_far, 258, Some(251), 1);
k04n!(k04n_hops_equiv_far, 258, Some(252), 2);
