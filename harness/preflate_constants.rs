//! child of `preflate_constants`
#![allow(unused_imports, dead_code)]
use super::*;
use crate::verif_common::*;
use preflate_ref::preflate_constants::verif_export as refx;

kproof! {
    /// K03a: base/extra tables equal RFC 1951's; quantize_* picks the code whose range contains the value;
    /// K04: and all of them equal the reference build's
    fn k03a_tables() {
        let lc: usize = kani::any();
        kani::assume(lc < 29);
        assert!(LENGTH_BASE_TABLE[lc] as u16 + 3 == RFC_LEN_BASE[lc], "length base table differs from RFC 1951");
        assert!(LENGTH_EXTRA_TABLE[lc] == RFC_LEN_EXTRA[lc], "length extra-bits table differs from RFC 1951");
        let dc: usize = kani::any();
        kani::assume(dc < 30);
        assert!(DIST_BASE_TABLE[dc] + 1 == RFC_DIST_BASE[dc], "distance base table differs from RFC 1951");
        assert!(DIST_EXTRA_TABLE[dc] == RFC_DIST_EXTRA[dc], "distance extra-bits table differs from RFC 1951");
        let len: u32 = kani::any();
        kani::assume(len >= 3 && len <= 258);
        let q = quantize_length(len);
        assert!(q < 29);
        assert!(RFC_LEN_BASE[q] as u32 <= len && (len - RFC_LEN_BASE[q] as u32) < (1u32 << RFC_LEN_EXTRA[q]), "quantize_length picks a code whose range does not contain the length");
        let dist: u32 = kani::any();
        kani::assume(dist >= 1 && dist <= 32768);
        let qd = quantize_distance(dist);
        assert!(qd < 30);
        assert!(RFC_DIST_BASE[qd] as u32 <= dist && (dist - RFC_DIST_BASE[qd] as u32) < (1u32 << RFC_DIST_EXTRA[qd]), "quantize_distance picks a code whose range does not contain the distance");
        // reference build
        assert!(refx::q_len(len) == q && refx::q_dist(dist) == qd);
        assert!(refx::len_tab(lc) == (LENGTH_BASE_TABLE[lc], LENGTH_EXTRA_TABLE[lc]));
        assert!(refx::dist_tab(dc) == (DIST_BASE_TABLE[dc], DIST_EXTRA_TABLE[dc]));
        let t: usize = kani::any();
        kani::assume(t < 19);
        assert!(refx::tree_order(t) == TREE_CODE_ORDER_TABLE[t]);
        // RFC 1951 §3.2.7 order of the code length alphabet
        const RFC_ORDER: [usize; 19] = [16, 17, 18, 0, 8, 7, 9, 6, 10, 5, 11, 4, 12, 3, 13, 2, 14, 1, 15];
        assert!(TREE_CODE_ORDER_TABLE[t] == RFC_ORDER[t]);
        kani::cover!(len == 258 && dist == 32768, "extremes");
        kani::cover!(len == 257 && q == 27, "length 257 is code 284");
    }
}
