//! child of `hash_algorithm`: C04 kernel equivalence, current tree vs frozen reference
#![allow(unused_imports, dead_code)]
use super::*;
use crate::verif_common::*;
use preflate_ref::hash_algorithm::verif_export as refx;

kproof! {
    /// K04a: every hash function agrees with the reference build on every 4-byte input
    /// (the hash decides which chain a position lands in, hence every predicted match)
    fn k04a_hash_equiv() {
        // shift/xor/table hashes; the multiplicative ones are in k04a_hash_equiv_mul (a 32-bit multiplier miter is slow)
        let alg: u8 = kani::any();
        kani::assume(alg == 1 || alg == 2 || alg == 6 || alg == 7);
        let mask: u16 = kani::any();
        let shift: u32 = kani::any();
        kani::assume(shift <= 15);
        let b: [u8; 4] = kani::any();
        assert!(super::verif_export::hash_of(alg, mask, shift, &b) == refx::hash_of(alg, mask, shift, &b), "hash function differs from the reference build");
        assert!(super::verif_export::hash_bytes(alg) == refx::hash_bytes(alg));
        kani::cover!(alg == 7, "crc32c");
        kani::cover!(alg == 1 && shift == 5 && mask == 0x7fff, "zlib default");
    }
}
kproof! {
    /// K04a-mul: the multiplicative hashes (libdeflate 4-byte, its fast variant, its secondary 3-byte hash, zlib-ng)
    fn k04a_hash_equiv_mul() {
        let alg: u8 = kani::any();
        kani::assume(alg == 3 || alg == 4 || alg == 5 || alg == 8);
        let b: [u8; 4] = kani::any();
        assert!(super::verif_export::hash_of(alg, 0, 0, &b) == refx::hash_of(alg, 0, 0, &b), "hash function differs from the reference build");
        assert!(super::verif_export::hash_bytes(alg) == refx::hash_bytes(alg));
        kani::cover!(alg == 5, "zlib-ng");
    }
}
