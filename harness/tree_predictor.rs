//! child of `tree_predictor`
#![allow(unused_imports, dead_code)]
use super::*;
use crate::verif_common::*;

kproof! {
    /// K05b: calc_tc_lengths_without_trailing_zeros is total on every slice the
    /// length calculators can return (1..=19 entries; trailing zero symbols are trimmed).
    fn k05b_tc_len_total() {
        let a: [u8; 19] = kani::any();
        let n: usize = kani::any();
        kani::assume(n >= 1 && n <= 19);
        let r = calc_tc_lengths_without_trailing_zeros(&a[..n]);
        assert!(r <= 19);
        assert!(r >= core::cmp::min(n, 4));
        kani::cover!(n == 11 && r == 4, "short slice trimmed to 4");
        kani::cover!(n == 19 && r == 19, "full slice");
    }
}

use crate::huffman_encoding::{HuffmanOriginalEncoding, TreeCodeType};

fn any_tct() -> TreeCodeType {
    let k: u8 = kani::any();
    kani::assume(k <= 3);
    match k { 0 => TreeCodeType::Code, 1 => TreeCodeType::Repeat, 2 => TreeCodeType::ZeroShort, _ => TreeCodeType::ZeroLong }
}

/// an RLE item that HuffmanOriginalEncoding::read can produce
fn any_item() -> (TreeCodeType, u8) {
    let t = any_tct();
    let d: u8 = kani::any();
    match t {
        TreeCodeType::Code => kani::assume(d <= 15),
        TreeCodeType::Repeat => kani::assume(d >= 3 && d <= 6),
        TreeCodeType::ZeroShort => kani::assume(d >= 3 && d <= 10),
        TreeCodeType::ZeroLong => kani::assume(d >= 11 && d <= 138),
    }
    (t, d)
}
fn item_span(i: &(TreeCodeType, u8)) -> usize { if i.0 == TreeCodeType::Code { 1 } else { i.1 as usize } }

/// K02b: predict_ld_trees -> reconstruct_ld_trees mirror
fn ld_mirror<const L: usize, const K: usize>() {
    let pred: [u8; L] = kani::any();
    let n: usize = kani::any();
    kani::assume(n >= 1 && n <= K);
    let mut items: Vec<(TreeCodeType, u8)> = Vec::new();
    let mut total = 0usize;
    let mut i = 0;
    while i < K {
        if i < n { let it = any_item(); total += item_span(&it); items.push(it); }
        i += 1;
    }
    kani::assume(total >= 1 && total <= L);
    let mut rec = Rec::new();
    let r = predict_ld_trees(&mut rec, &pred[..total], &items[..]);
    assert!(r.is_ok());
    let back = reconstruct_ld_trees(&mut rec, &pred[..total]);
    assert!(back.is_ok(), "reconstruction fails on data the predictor wrote");
    let back = back.unwrap();
    assert!(back.len() == n, "number of run-length items changed");
    let mut i = 0;
    while i < K {
        if i < n { assert!(back[i].0 == items[i].0 && back[i].1 == items[i].1, "run-length item changed"); }
        i += 1;
    }
    assert!(rec.fully_consumed());
    kani::cover!(n == K && items[0].0 == TreeCodeType::ZeroLong, "long zero run first");
    kani::cover!(n >= 2 && items[1].0 == TreeCodeType::Repeat && items[0].0 == TreeCodeType::ZeroShort, "code 16 after a zero run");
    core::mem::forget(back); core::mem::forget(items);
}
kproof! { fn k02b_ld_mirror_14_3() { ld_mirror::<14, 3>(); } }
kproof! { fn k02b_ld_mirror_24_4() { ld_mirror::<24, 4>(); } }

/// deterministic stand-in for huffman_calc::calc_bit_lengths in the mirror lemma: both sides
/// call it with equal arguments, so any function of (limit, argument length) that returns a vector of
/// a plausible shape is a sound abstraction for the mirror property (not for C04/C09).
pub static mut CBL_LIT: [u8; 8] = [0xA5, 0x5E, 0xED, 0x31, 0xA5, 0x5E, 0xED, 0x31];
pub static mut CBL_LIT_N: usize = 0x5EED_0000_0000_0032;
pub static mut CBL_DIST_N: usize = 0x5EED_0000_0000_0033;
pub static mut CBL_TC: [u8; 19] = [0x5E; 19];
pub static mut CBL_TC_N: usize = 0x5EED_0000_0000_0035;
pub fn stub_calc_bit_lengths(_c: HufftreeBitCalc, sym_count: &[u16], _limit: usize) -> Vec<u8> {
    unsafe {
        if sym_count.len() == 19 {
            let mut v = Vec::new();
            let mut i = 0; while i < 19 { if i < CBL_TC_N { v.push(CBL_TC[i]); } i += 1; }
            v
        } else if sym_count.len() == crate::preflate_constants::DIST_CODE_COUNT {
            vec![1u8; CBL_DIST_N]
        } else {
            vec![2u8; CBL_LIT_N]
        }
    }
}

kproof! {
    /// K02c: predict_tree_for_block -> recreate_tree_for_block mirror for the header counts and the
    /// code-length-alphabet part, calc_bit_lengths abstracted (see stub), <= 3 RLE items.
    #[kani::stub(crate::huffman_calc::calc_bit_lengths, stub_calc_bit_lengths)]
    fn k02c_tree_mirror() {
        // shapes the length calculator can return
        let lit_n: usize = kani::any(); let dist_n: usize = kani::any(); let tc_n: usize = kani::any();
        kani::assume(lit_n >= 257 && lit_n <= 286 && dist_n >= 1 && dist_n <= 30 && tc_n >= 1 && tc_n <= 19);
        unsafe { CBL_LIT_N = lit_n; CBL_DIST_N = dist_n; CBL_TC = kani::any(); CBL_TC_N = tc_n; }
        // the original header: any counts, items summing to num_literals + num_dist
        let hlit: usize = kani::any(); let hdist: usize = kani::any(); let hclen: usize = kani::any();
        kani::assume(hlit >= 257 && hlit <= 288 && hdist >= 1 && hdist <= 32 && hclen >= 4 && hclen <= 19);
        let a = any_item(); let b = any_item(); let c = any_item();
        kani::assume(a.0 == TreeCodeType::ZeroLong && b.0 == TreeCodeType::ZeroLong);
        kani::assume(item_span(&a) + item_span(&b) + item_span(&c) == hlit + hdist);
        let code_lengths: [u8; 19] = kani::any();
        let mut i = 0; while i < 19 { kani::assume(code_lengths[i] <= 7); i += 1; }
        // symbols beyond HCLEN are zero in a header that was read from a stream
        let mut i = 0; while i < 19 { if i >= hclen { kani::assume(code_lengths[crate::preflate_constants::TREE_CODE_ORDER_TABLE[i]] == 0); } i += 1; }
        let enc = HuffmanOriginalEncoding { lengths: vec![a, b, c], code_lengths, num_literals: hlit, num_dist: hdist, num_code_lengths: hclen };
        let freq = TokenFrequency::default();
        let mut rec = Rec::new();
        let r = predict_tree_for_block(&enc, &freq, &mut rec, HufftreeBitCalc::Zlib);
        assert!(r.is_ok());
        let back = recreate_tree_for_block(&freq, &mut rec, HufftreeBitCalc::Zlib);
        assert!(back.is_ok());
        let back = back.unwrap();
        assert!(back.num_literals == hlit && back.num_dist == hdist && back.num_code_lengths == hclen, "HLIT/HDIST/HCLEN changed");
        assert!(back.lengths.len() == 3 && back.lengths[0] == a && back.lengths[1] == b && back.lengths[2] == c);
        let mut i = 0; while i < 19 { assert!(back.code_lengths[i] == code_lengths[i], "code-length-alphabet lengths changed"); i += 1; }
        assert!(rec.fully_consumed());
        kani::cover!(hclen == 19 && tc_n == 11, "short predicted code-length vector, full HCLEN");
        kani::cover!(hlit != lit_n && hdist != dist_n, "both counts mispredicted");
        core::mem::forget(back); core::mem::forget(enc);
    }
}

use preflate_ref::tree_predictor::verif_export as refx;
kproof! {
    /// K04e: run-length prediction kernels agree with the reference build on every slice
    fn k04e_rle_predictor_equiv() {
        const L: usize = 12;
        let sym: [u8; L] = kani::any();
        let n: usize = kani::any();
        kani::assume(n >= 1 && n <= L);
        let has_prev: bool = kani::any();
        let prev: u8 = kani::any();
        assert!(super::verif_export::code_type(&sym[..n], has_prev, prev) == refx::code_type(&sym[..n], has_prev, prev), "predict_code_type differs from the reference build");
        let ty: u8 = kani::any();
        kani::assume(ty <= 3);
        assert!(super::verif_export::code_data(&sym[..n], ty) == refx::code_data(&sym[..n], ty), "predict_code_data differs from the reference build");
        kani::cover!(n == 12 && sym[0] == 0 && super::verif_export::code_type(&sym[..n], has_prev, prev) == TreeCodeType::ZeroLong as u32, "long zero run predicted");
    }
}
kproof! {
    /// K04e': long runs (concrete lengths up to 140) — thresholds 3/6/10/11/138
    fn k04e_rle_long_runs() {
        let z = [0u8; 140];
        let s = [5u8; 140];
        let n: usize = kani::any();
        kani::assume(n >= 1 && n <= 140);
        let ty: u8 = kani::any();
        kani::assume(ty <= 3);
        assert!(super::verif_export::code_data(&z[..n], ty) == refx::code_data(&z[..n], ty));
        assert!(super::verif_export::code_data(&s[..n], ty) == refx::code_data(&s[..n], ty));
        assert!(super::verif_export::code_type(&z[..n], false, 0) == refx::code_type(&z[..n], false, 0));
        assert!(super::verif_export::code_type(&s[..n], true, 5) == refx::code_type(&s[..n], true, 5));
        kani::cover!(n == 139, "longer than 138");
    }
}
kproof! {
    /// K04e'': calc_tc_lengths_without_trailing_zeros and the correction ops of predict_ld_trees
    fn k04e_ld_ops_equiv() {
        let tcl: [u8; 19] = kani::any();
        assert!(super::verif_export::tc_len(&tcl) == refx::tc_len(&tcl));
        const L: usize = 10;
        let pred: [u8; L] = kani::any();
        let kinds: [u8; 2] = kani::any();
        let data: [u8; 2] = kani::any();
        let n: usize = kani::any();
        kani::assume(n >= 1 && n <= 2);
        let mut total = 0usize;
        let mut i = 0;
        while i < 2 {
            if i < n {
                kani::assume(kinds[i] <= 3);
                match kinds[i] { 0 => kani::assume(data[i] <= 15), 1 => kani::assume(data[i] >= 3 && data[i] <= 6), 2 => kani::assume(data[i] >= 3 && data[i] <= 10), _ => kani::assume(data[i] >= 11) }
                total += if kinds[i] == 0 { 1 } else { data[i] as usize };
            }
            i += 1;
        }
        kani::assume(total >= 1 && total <= L);
        let a = super::verif_export::ld_ops(&pred[..total], &kinds, &data, n);
        let b = refx::ld_ops(&pred[..total], &kinds, &data, n);
        assert!(a.n == b.n, "number of corrections differs from the reference build");
        let mut i = 0;
        while i < 8 { if i < a.n { assert!(a.kind[i] == b.kind[i] && a.ctx[i] == b.ctx[i] && a.val[i] == b.val[i], "tree correction differs from the reference build"); } i += 1; }
        let fa = super::verif_export::codetree_freq(&kinds, &data, n);
        let fb = refx::codetree_freq(&kinds, &data, n);
        let mut i = 0;
        while i < 19 { assert!(fa[i] == fb[i]); i += 1; }
        kani::cover!(n == 2 && kinds[0] == 2 && kinds[1] == 1, "zero run then repeat");
    }
}

// ---------------------------------------------------------------------------
// K02c', concrete shapes: predict_tree_for_block -> recreate_tree_for_block with the length calculator replaced by a
// deterministic stand-in whose output SIZES are concrete per instance (predicted HLIT / HDIST / code-length-code length)
// and whose non-zero CONTENT is symbolic; the original header has concrete counts and item layout, symbolic code values,
// symbolic HCLEN and a symbolic code-length code.  Decides: the three count corrections (both directions: resize up and
// down), the order of the corrections, the code-length-order loop over HCLEN entries, trailing-zero trimming.
// ---------------------------------------------------------------------------
pub static mut S_LIT_N: usize = 0x5EED_0000_0000_0041;
pub static mut S_DIST_N: usize = 0x5EED_0000_0000_0042;
pub static mut S_TC_N: usize = 0x5EED_0000_0000_0043;
pub static mut S_LIT_TAIL: [u8; 3] = [0x44, 0x45, 0x46];
pub static mut S_DIST: [u8; 2] = [0x47, 0x48];
pub static mut S_TC: [u8; 19] = [0x49; 19];
pub fn stub_calc_bit_lengths_shape(_c: HufftreeBitCalc, sym_count: &[u16], _limit: usize) -> Vec<u8> {
    unsafe {
        if sym_count.len() == 19 {
            let mut v = vec![0u8; S_TC_N];
            let mut i = 0; while i < 19 { if i < S_TC_N { v[i] = S_TC[i]; } i += 1; }
            v
        } else if sym_count.len() == crate::preflate_constants::DIST_CODE_COUNT {
            let mut v = vec![0u8; S_DIST_N];
            v[0] = S_DIST[0];
            if S_DIST_N >= 2 { v[S_DIST_N - 1] = S_DIST[1]; }
            v
        } else {
            let mut v = vec![0u8; S_LIT_N];
            v[S_LIT_N - 3] = S_LIT_TAIL[0]; v[S_LIT_N - 2] = S_LIT_TAIL[1]; v[S_LIT_N - 1] = S_LIT_TAIL[2];
            v
        }
    }
}
fn tree_mirror_shape(lit_n: usize, dist_n: usize, tc_n: usize, hlit: usize, hdist: usize, hclen: usize, zero_runs: &[u8]) {
    unsafe {
        S_LIT_N = lit_n; S_DIST_N = dist_n; S_TC_N = tc_n;
        S_LIT_TAIL = kani::any(); S_DIST = kani::any(); S_TC = kani::any();
        let mut i = 0; while i < 3 { kani::assume(S_LIT_TAIL[i] <= 15); i += 1; }
        kani::assume(S_DIST[0] <= 15 && S_DIST[1] <= 15);
        let mut i = 0; while i < 19 { kani::assume(S_TC[i] <= 7); i += 1; }
    }
    let a: u8 = kani::any(); let b: u8 = kani::any(); let c: u8 = kani::any();
    kani::assume(a <= 15 && b <= 15 && c <= 15);
    let mut items: Vec<(TreeCodeType, u8)> = Vec::with_capacity(zero_runs.len() + 3);
    let mut i = 0; while i < zero_runs.len() { items.push((TreeCodeType::ZeroLong, zero_runs[i])); i += 1; }
    items.push((TreeCodeType::Code, a)); items.push((TreeCodeType::Code, b)); items.push((TreeCodeType::Code, c));
    let code_lengths: [u8; 19] = kani::any();
    let mut i = 0; while i < 19 { kani::assume(code_lengths[i] <= 7); i += 1; }
    // symbols beyond HCLEN are zero in a header that was read from a stream (k07e_*)
    let mut i = 0; while i < 19 { if i >= hclen { kani::assume(code_lengths[crate::preflate_constants::TREE_CODE_ORDER_TABLE[i]] == 0); } i += 1; }
    let nitems = items.len();
    let enc = HuffmanOriginalEncoding { lengths: items, code_lengths, num_literals: hlit, num_dist: hdist, num_code_lengths: hclen };
    let freq = TokenFrequency::default();
    let mut rec = Rec::new();
    let r = predict_tree_for_block(&enc, &freq, &mut rec, HufftreeBitCalc::Zlib);
    assert!(r.is_ok());
    let back = recreate_tree_for_block(&freq, &mut rec, HufftreeBitCalc::Zlib);
    assert!(back.is_ok(), "recreate_tree_for_block fails on corrections predict_tree_for_block produced");
    let back = back.unwrap();
    assert!(back.num_literals == hlit && back.num_dist == hdist, "HLIT / HDIST changed");
    assert!(back.num_code_lengths == hclen, "HCLEN changed");
    assert!(back.lengths.len() == nitems, "number of run-length items changed");
    let mut i = 0; while i < nitems { assert!(back.lengths[i] == enc.lengths[i], "run-length item changed"); i += 1; }
    let mut i = 0; while i < 19 { assert!(back.code_lengths[i] == code_lengths[i], "code-length code changed"); i += 1; }
    assert!(rec.fully_consumed(), "reconstruction did not consume the corrections exactly");
    kani::cover!(true, "mirrored");
    core::mem::forget(back); core::mem::forget(enc);
}
/// CONTRACT of the run-length mirror (discharged by k02b_ld_mirror_*: reconstruct_ld_trees(predict_ld_trees(p, t)) == t
/// whenever both sides are given the same predicted vector p and t covers p exactly): the items travel through the
/// codec verbatim, together with the length and a digest of the predicted vector, which the other side must reproduce
fn ld_digest(v: &[u8]) -> u16 {
    let n = v.len();
    let mut d: u16 = n as u16;
    if n >= 1 { d = d.wrapping_mul(31).wrapping_add(v[n - 1] as u16); }
    if n >= 2 { d = d.wrapping_mul(31).wrapping_add(v[n - 2] as u16); }
    if n >= 4 { d = d.wrapping_mul(31).wrapping_add(v[n - 4] as u16); }
    d
}
pub fn contract_predict_ld<D: PredictionEncoder>(encoder: &mut D, predicted_bit_len: &[u8], actual_target_codes: &[(TreeCodeType, u8)]) -> Result<()> {
    let mut total = 0usize;
    let mut i = 0;
    while i < actual_target_codes.len() { total += item_span(&actual_target_codes[i]); i += 1; }
    assert!(total == predicted_bit_len.len(), "predict_ld_trees precondition: the items do not cover the predicted vector exactly (its assert_eq! would panic)");
    encoder.encode_value(ld_digest(predicted_bit_len), 16);
    encoder.encode_value(actual_target_codes.len() as u16, 8);
    let mut i = 0;
    while i < actual_target_codes.len() { encoder.encode_value(match actual_target_codes[i].0 { TreeCodeType::Code => 0, TreeCodeType::Repeat => 1, TreeCodeType::ZeroShort => 2, TreeCodeType::ZeroLong => 3 }, 2); encoder.encode_value(actual_target_codes[i].1 as u16, 8); i += 1; }
    Ok(())
}
pub fn contract_reconstruct_ld<D: PredictionDecoder>(decoder: &mut D, sym_bit_len: &[u8]) -> Result<Vec<(TreeCodeType, u8)>> {
    let dg = decoder.decode_value(16);
    assert!(dg == ld_digest(sym_bit_len), "the reconstruction side predicts different code lengths (or a different number of them) than the analysis side");
    let n = decoder.decode_value(8) as usize;
    let mut v: Vec<(TreeCodeType, u8)> = Vec::with_capacity(8);
    let mut i = 0;
    while i < 8 {
        if i < n {
            let t = match decoder.decode_value(2) { 0 => TreeCodeType::Code, 1 => TreeCodeType::Repeat, 2 => TreeCodeType::ZeroShort, _ => TreeCodeType::ZeroLong };
            let d = decoder.decode_value(8) as u8;
            v.push((t, d));
        }
        i += 1;
    }
    Ok(v)
}
macro_rules! k02c { ($name:ident, $ln:expr, $dn:expr, $tn:expr, $hl:expr, $hd:expr, $hc:expr, $runs:expr) => {
    kproof! {
        #[kani::stub(crate::huffman_calc::calc_bit_lengths, stub_calc_bit_lengths_shape)]
        #[kani::stub(crate::tree_predictor::predict_ld_trees, contract_predict_ld)]
        #[kani::stub(crate::tree_predictor::reconstruct_ld_trees, contract_reconstruct_ld)]
        fn $name() { tree_mirror_shape($ln, $dn, $tn, $hl, $hd, $hc, $runs); }
    }
} }
k02c!(k02c_tree_mirror_exact, 257, 1, 19, 257, 1, 19, &[138, 117]);
k02c!(k02c_tree_mirror_grow, 257, 1, 11, 286, 30, 7, &[138, 138, 37]);
k02c!(k02c_tree_mirror_shrink, 286, 30, 4, 257, 1, 4, &[138, 117]);
k02c!(k02c_tree_mirror_exact_6, 257, 1, 6, 257, 1, 6, &[138, 117]);
k02c!(k02c_tree_mirror_grow_5, 257, 1, 4, 286, 30, 5, &[138, 138, 37]);
k02c!(k02c_tree_mirror_exact_8, 257, 1, 8, 257, 1, 8, &[138, 117]);
k02c!(k02c_tree_mirror_grow_9, 257, 1, 6, 286, 30, 9, &[138, 138, 37]);
