//! child of `tree_predictor`
#![allow(unused_imports, dead_code)]
use super::*;
use crate::verif_common::*;

kproof! {
    /// K05b: calc_tc_lengths_without_trailing_zeros is total on every slice the
    /// length calculators can return (1..=19 entries; trailing zero symbols are trimmed).
    fn k05b_tc_len_total() {
        let a: [u8; 19] = kani::any();
        let n: usize = kani::any();
        kani::assume(n >= 1 && n <= 19);
        let r = calc_tc_lengths_without_trailing_zeros(&a[..n]);
        assert!(r <= 19);
        assert!(r >= core::cmp::min(n, 4));
        kani::cover!(n == 11 && r == 4, "short slice trimmed to 4");
        kani::cover!(n == 19 && r == 19, "full slice");
    }
}
