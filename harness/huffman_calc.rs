//! child of `huffman_calc`
#![allow(unused_imports, dead_code)]
use super::*;
use crate::verif_common::*;

fn zlib_equiv<const N: usize>(fmax: u16, limit: usize) {
    let f: [u16; N] = kani::any();
    let mut i = 0;
    while i < N { kani::assume(f[i] <= fmax); i += 1; }
    let (a, an) = super::verif_export::zlib_lengths(&f, limit);
    let (b, bn) = preflate_ref::huffman_calc::verif_export::zlib_lengths(&f, limit);
    assert!(an == bn, "length vector size differs from the reference build");
    let mut i = 0;
    while i < 8 { if i < an { assert!(a[i] == b[i], "Huffman code length differs from the reference build"); } i += 1; }
    kani::cover!(an == N && a[0] == 2, "a two-bit code at symbol 0");
}
kproof! {
    /// K04d: zlib-style Huffman length calculation agrees with the reference build (tie-breaks included)
    fn k04d_zlib_lengths_3() { zlib_equiv::<3>(3, 7); }
}
kproof! { fn k04d_zlib_lengths_4() { zlib_equiv::<4>(3, 7); } }
