//! child of `huffman_calc`
#![allow(unused_imports, dead_code)]
use super::*;
use crate::verif_common::*;

fn zlib_equiv<const N: usize>(fmax: u16, limit: usize) {
    let f: [u16; N] = kani::any();
    let mut i = 0;
    while i < N { kani::assume(f[i] <= fmax); i += 1; }
    let (a, an) = super::verif_export::zlib_lengths(&f, limit);
    let (b, bn) = preflate_ref::huffman_calc::verif_export::zlib_lengths(&f, limit);
    assert!(an == bn, "length vector size differs from the reference build");
    let mut i = 0;
    while i < 8 { if i < an { assert!(a[i] == b[i], "Huffman code length differs from the reference build"); } i += 1; }
    kani::cover!(an == N && a[0] == 2, "a two-bit code at symbol 0");
}
kproof! {
    /// K04d: zlib-style Huffman length calculation agrees with the reference build (tie-breaks included)
    fn k04d_zlib_lengths_3() { zlib_equiv::<3>(3, 7); }
}
kproof! { fn k04d_zlib_lengths_4() { zlib_equiv::<4>(3, 7); } }

/// K04d-single: the degenerate cases of the length calculation (no symbol or exactly ONE symbol used: a block with
/// only literals of one value, or whose matches all use one distance code) agree with the reference build: which dummy
/// second symbol completes the code is part of the stored format (the reader predicts the same lengths)
fn zlib_single_at<const N: usize>(idx: usize, v: u16, limit: usize) {
    let mut f = [0u16; N];
    if idx < N { f[idx] = v; }
    let a = super::verif_export::zlib_lengths(&f, limit);
    let b = preflate_ref::huffman_calc::verif_export::zlib_lengths(&f, limit);
    assert!(a.1 == b.1, "number of code lengths differs from the reference build");
    let mut i = 0;
    while i < 8 { assert!(a.0[i] == b.0[i], "code length differs from the reference build"); i += 1; }
}
/// structure concrete (which symbol is used), so that the calculator's one-symbol branch is taken on a concrete path
fn zlib_single<const N: usize>(limit: usize) {
    let mut idx = 0;
    while idx <= N { // idx == N: no symbol used at all
        zlib_single_at::<N>(idx, 1, limit);
        zlib_single_at::<N>(idx, 65535, limit);
        idx += 1;
    }
    kani::cover!(true, "all single-symbol alphabets compared");
}
kproof! { fn k04d_zlib_lengths_single() { zlib_single::<6>(15); zlib_single::<6>(7); } }
