//! child of `token_predictor`: predict_block / recreate_block mirror over the model chain (C02, C08)
#![allow(unused_imports, dead_code)]
use super::*;
use crate::hash_chain_holder::verif_harness::{boxed_model_holder, same_dictionary_updates, valid_reference, ModelChain, MC_T, UPD_SIDE};
use crate::verif_common::*;

pub fn mk_predictor<'a>(text: &'a [u8], p: &TokenPredictorParameters, m: ModelChain, four: bool) -> TokenPredictor<'a> {
    TokenPredictor {
        state: boxed_model_holder(p, m, four),
        params: *p,
        pending_reference: None,
        current_token_count: 0,
        max_token_count: p.max_token_count.into(),
        input: PreflateInput::new(text),
    }
}

/// every valid tokenisation of a prefix of `text` into <= maxtok tokens (what decode_block can emit)
pub fn any_tokens(text: &[u8], maxtok: usize, bt: BlockType) -> (PreflateTokenBlock, usize) {
    let mut blk = PreflateTokenBlock::new(bt);
    let n: usize = kani::any();
    kani::assume(n <= maxtok);
    let mut pos = 0usize;
    let mut i = 0;
    while i < maxtok {
        if i < n {
            kani::assume(pos < text.len());
            if kani::any() {
                blk.add_literal(text[pos]);
                pos += 1;
            } else {
                let l: usize = kani::any();
                let d: usize = kani::any();
                kani::assume(valid_reference(text, pos, l, d));
                let irregular: bool = kani::any();
                kani::assume(!irregular || l == 258);
                blk.add_reference(l as u32, d as u32, irregular);
                pos += l;
            }
        }
        i += 1;
    }
    (blk, pos)
}

fn token_mirror<const T: usize>(maxtok: usize, kmax: usize, four: bool, lazy: bool) {
    let text: [u8; T] = kani::any();
    let len: usize = kani::any();
    kani::assume(len >= 1 && len <= T);
    let p = any_predictor_params();
    kani::assume(matches!(p.matching_type, crate::preflate_parse_config::MatchingType::Lazy { .. }) == lazy);
    let m = ModelChain::any(len, kmax, if four { 4 } else { 3 });
    let bt = if kani::any() { BlockType::StaticHuff } else { BlockType::DynamicHuff };
    let (blk, covered) = any_tokens(&text[..len], maxtok, bt);
    let last: bool = kani::any();
    kani::assume(!last || covered == len);

    let mut rec = Rec::new();
    let mut pa = mk_predictor(&text[..len], &p, m, four);
    unsafe { UPD_SIDE = 0; }
    let r = pa.predict_block(&blk, &mut rec, last);
    let ok = r.is_ok();
    if ok {
        assert!(pa.input.pos() as usize == covered);
        let mut pb = mk_predictor(&text[..len], &p, m, four);
        unsafe { UPD_SIDE = 1; }
        let rb = pb.recreate_block(&mut rec);
        assert!(rb.is_ok(), "recreate_block fails on corrections predict_block produced");
        let b2 = rb.unwrap();
        assert!(b2.block_type == blk.block_type, "block type changed");
        assert!(b2.tokens.len() == blk.tokens.len(), "token count changed");
        let mut i = 0;
        while i < maxtok {
            if i < blk.tokens.len() { assert!(b2.tokens[i] == blk.tokens[i], "token changed in reconstruction"); }
            i += 1;
        }
        assert!(pb.input.pos() as usize == covered);
        assert!(rec.fully_consumed(), "reconstruction did not consume the corrections exactly");
        assert!(same_dictionary_updates(), "analysis and reconstruction inserted different positions into the dictionary");
        core::mem::forget(b2);
        core::mem::forget(pb);
    }
    kani::cover!(ok && blk.tokens.len() >= 2 && matches!(blk.tokens[1], PreflateToken::Reference(_)), "a block with a reference token was mirrored");
    kani::cover!(ok && blk.tokens.len() == maxtok, "maximum token count");
    kani::cover!(!ok, "predict_block reports Err");
    core::mem::forget(r);
    core::mem::forget(pa);
    core::mem::forget(blk);
}
kproof_vp! { fn k02e_token_mirror_greedy_h3() { token_mirror::<6>(2, 1, false, false); } }
kproof_vp! { fn k02e_token_mirror_lazy_h3() { token_mirror::<6>(2, 1, false, true); } }
kproof_vp! { fn k02e_token_mirror_greedy_h4() { token_mirror::<6>(2, 1, true, false); } }
kproof_vp! { fn k02e_token_mirror_lazy_h4() { token_mirror::<6>(2, 1, true, true); } }
kproof_vp! { fn k02e_token_mirror_lazy_h3_t8() { token_mirror::<8>(3, 2, false, true); } }


/// stored block followed by nothing: the dictionary must be driven identically by both sides (the bytes of a
/// stored block are the context of every later match)
fn stored_mirror(four: bool) {
    let text: [u8; 6] = kani::any();
    let n: usize = kani::any();
    kani::assume(n >= 1 && n <= 6);
    let p = any_predictor_params();
    let m = ModelChain::any(n, 1, if four { 4 } else { 3 });
    let mut blk = PreflateTokenBlock::new(BlockType::Stored);
    let mut i = 0;
    while i < 6 { if i < n { blk.uncompressed.push(text[i]); } i += 1; }
    blk.padding_bits = kani::any();
    kani::assume(blk.padding_bits < 32);
    let mut rec = Rec::new();
    let mut pa = mk_predictor(&text[..n], &p, m, four);
    unsafe { UPD_SIDE = 0; }
    let r = pa.predict_block(&blk, &mut rec, true);
    assert!(r.is_ok());
    let mut pb = mk_predictor(&text[..n], &p, m, four);
    unsafe { UPD_SIDE = 1; }
    let b2 = pb.recreate_block(&mut rec).unwrap();
    assert!(b2.block_type == BlockType::Stored && b2.uncompressed.len() == n && b2.padding_bits == blk.padding_bits);
    let mut i = 0;
    while i < 6 { if i < n { assert!(b2.uncompressed[i] == text[i]); } i += 1; }
    assert!(rec.fully_consumed());
    assert!(same_dictionary_updates(), "analysis and reconstruction inserted different positions into the dictionary for a stored block");
    kani::cover!(n == 6, "six stored bytes");
    core::mem::forget(b2); core::mem::forget(pa); core::mem::forget(pb); core::mem::forget(blk);
}
kproof_vp! { fn k02e_stored_mirror_h3() { stored_mirror(false); } }
kproof_vp! { fn k02e_stored_mirror_h4() { stored_mirror(true); } }

kproof_vp! {
    /// K04j: predict_block emits the same correction sequence as the reference build for the same text, tokens,
    /// parameters and candidate lists: walk order, nice-length cut-off, lazy rule, 3-byte distance limit, hop
    /// counting, length/distance/flag corrections are all part of the stored format
    fn k04j_predict_block_equiv() {
        const T: usize = 7;
        let text: [u8; T] = kani::any();
        let len: usize = kani::any();
        kani::assume(len >= 1 && len <= T);
        let p = any_predictor_params();
        kani::assume(p.min_len != 0);
        let m = ModelChain::any(len, 2, 3);
        let dynamic: bool = kani::any();
        let (blk, covered) = any_tokens(&text[..len], 3, if dynamic { BlockType::DynamicHuff } else { BlockType::StaticHuff });
        let last: bool = kani::any();
        kani::assume(!last || covered == len);
        // flatten
        let mut is_ref = [false; 3]; let mut lit = [0u8; 3]; let mut l = [0u32; 3]; let mut d = [0u32; 3];
        let mut i = 0;
        while i < 3 {
            if i < blk.tokens.len() {
                match blk.tokens[i] {
                    PreflateToken::Literal(c) => { lit[i] = c; }
                    PreflateToken::Reference(r) => { kani::assume(!r.get_irregular258()); is_ref[i] = true; l[i] = r.len(); d[i] = r.dist(); }
                }
            }
            i += 1;
        }
        let (lazy, gl, ml) = match p.matching_type { crate::preflate_parse_config::MatchingType::Greedy => (0u32, 0u32, 0u32), crate::preflate_parse_config::MatchingType::Lazy { good_length, max_lazy } => (1, good_length as u32, max_lazy as u32) };
        let (pk, pl) = match p.add_policy {
            crate::add_policy_estimator::DictionaryAddPolicy::AddAll => (0u32, 0u32), crate::add_policy_estimator::DictionaryAddPolicy::AddFirst(v) => (1, v as u32),
            crate::add_policy_estimator::DictionaryAddPolicy::AddFirstAndLast(v) => (2, v as u32), crate::add_policy_estimator::DictionaryAddPolicy::AddFirstExcept4kBoundary => (3, 0),
            crate::add_policy_estimator::DictionaryAddPolicy::AddFirstWith32KBoundary => (4, 0),
        };
        let pf: [u32; 19] = [0, if p.strategy == PreflateStrategy::Default { 0 } else { 1 }, p.window_bits, p.nice_length, pk, pl, p.max_token_count as u32,
            p.zlib_compatible as u32, p.max_dist_3_matches as u32, lazy, gl, ml, p.max_chain, p.min_len, 6, 0, 0, p.very_far_matches_detected as u32, p.matches_to_start_detected as u32];
        let n = blk.tokens.len();
        let a = super::verif_export::predict_ops(&text[..len], &pf, &m.dist, &m.cnt, dynamic, &is_ref, &lit, &l, &d, n, last);
        let b = preflate_ref::token_predictor::verif_export::predict_ops(&text[..len], &pf, &m.dist, &m.cnt, dynamic, &is_ref, &lit, &l, &d, n, last);
        assert!(a.n == b.n, "predict_block emits a different number of corrections than the reference build (or one of them fails)");
        let mut i = 0;
        while i < 24 {
            if i < a.n && a.n != 999 { assert!(a.kind[i] == b.kind[i] && a.ctx[i] == b.ctx[i] && a.val[i] == b.val[i], "predict_block emits a different correction than the reference build"); }
            i += 1;
        }
        kani::cover!(a.n != 999 && n >= 2 && is_ref[1], "a block with a reference token compared");
        kani::cover!(a.n == 999, "both builds report Err");
        core::mem::forget(blk);
    }
}

/// Token mirror with CONCRETE structure (text length, number and kinds of tokens) and symbolic content
/// (text bytes, reference lengths/distances, candidate lists, parameters): §1.2 of DESIGN.md.
fn token_mirror_shape<const T: usize, const NT: usize>(kinds: [bool; NT], four: bool, lazy: bool, kmax: usize) {
    let text: [u8; T] = kani::any();
    let p = any_predictor_params();
    kani::assume(matches!(p.matching_type, crate::preflate_parse_config::MatchingType::Lazy { .. }) == lazy);
    let m = ModelChain::any(T, kmax, if four { 4 } else { 3 });
    let mut blk = PreflateTokenBlock::new(BlockType::StaticHuff);
    let mut pos = 0usize;
    let mut i = 0;
    while i < NT {
        kani::assume(pos < T);
        if kinds[i] {
            let l: usize = kani::any();
            let d: usize = kani::any();
            kani::assume(valid_reference(&text[..], pos, l, d));
            blk.tokens.push(PreflateToken::new_reference(l as u32, d as u32, false));
            pos += l;
        } else {
            blk.tokens.push(PreflateToken::Literal(text[pos]));
            pos += 1;
        }
        i += 1;
    }
    let last = pos == T;
    let mut rec = Rec::new();
    let mut pa = mk_predictor(&text[..], &p, m, four);
    unsafe { UPD_SIDE = 0; }
    let r = pa.predict_block(&blk, &mut rec, last);
    let ok = r.is_ok();
    if ok {
        let mut pb = mk_predictor(&text[..], &p, m, four);
        unsafe { UPD_SIDE = 1; }
        let rb = pb.recreate_block(&mut rec);
        assert!(rb.is_ok(), "recreate_block fails on corrections predict_block produced");
        let b2 = rb.unwrap();
        assert!(b2.tokens.len() == NT, "token count changed");
        let mut i = 0;
        while i < NT { assert!(b2.tokens[i] == blk.tokens[i], "token changed in reconstruction"); i += 1; }
        assert!(pb.input.pos() as usize == pos);
        assert!(rec.fully_consumed(), "reconstruction did not consume the corrections exactly");
        assert!(same_dictionary_updates(), "analysis and reconstruction inserted different positions into the dictionary");
        core::mem::forget(b2);
        core::mem::forget(pb);
    }
    kani::cover!(ok, "mirrored");
    kani::cover!(!ok, "predict_block reports Err");
    core::mem::forget(r);
    core::mem::forget(pa);
    core::mem::forget(blk);
}
kproof_vp! { fn k02e_shape_lr_greedy_h3() { token_mirror_shape::<6, 2>([false, true], false, false, 1); } }
kproof_vp! { fn k02e_shape_lr_lazy_h3() { token_mirror_shape::<6, 2>([false, true], false, true, 1); } }

/// ONE block of ONE token from an ARBITRARY common pre-state (cursor at P0 inside the text, any pending lazy match,
/// any token counter): the inductive step of the block/token mirror.  Both sides start from the same state because
/// after every mirrored block they are in the same state (positions equal, dictionary updates equal, checked below);
/// a side that carries state across the block boundary which the other side resets is caught here.
fn token_step<const T: usize, const P0: usize>(is_ref: bool, four: bool, lazy: bool, kmax: usize) {
    let text: [u8; T] = kani::any();
    let p = any_predictor_params();
    kani::assume(matches!(p.matching_type, crate::preflate_parse_config::MatchingType::Lazy { .. }) == lazy);
    let m = ModelChain::any(T, kmax, if four { 4 } else { 3 });
    let bt = if kani::any() { BlockType::StaticHuff } else { BlockType::DynamicHuff };
    let mut blk = PreflateTokenBlock::new(bt);
    let mut pos = P0;
    if is_ref {
        let l: usize = kani::any();
        let d: usize = kani::any();
        kani::assume(valid_reference(&text[..], pos, l, d));
        blk.tokens.push(PreflateToken::new_reference(l as u32, d as u32, false));
        pos += l;
    } else {
        blk.tokens.push(PreflateToken::Literal(text[pos]));
        pos += 1;
    }
    let last = pos == T;
    // common pre-state
    let pend: Option<PreflateTokenReference> = if kani::any() {
        let l: usize = kani::any();
        let d: usize = kani::any();
        kani::assume(valid_reference(&text[..], P0, l, d));
        Some(PreflateTokenReference::new(l as u32, d as u32, false))
    } else { None };
    let cnt: u32 = kani::any();
    kani::assume(cnt <= 3);
    let mut rec = Rec::new();
    let mut pa = mk_predictor(&text[..], &p, m, four);
    pa.input.advance(P0 as u32);
    pa.pending_reference = pend;
    pa.current_token_count = cnt;
    unsafe { UPD_SIDE = 0; }
    let r = pa.predict_block(&blk, &mut rec, last);
    let ok = r.is_ok();
    if ok {
        let mut pb = mk_predictor(&text[..], &p, m, four);
        pb.input.advance(P0 as u32);
        pb.pending_reference = pend;
        pb.current_token_count = cnt;
        unsafe { UPD_SIDE = 1; }
        let rb = pb.recreate_block(&mut rec);
        assert!(rb.is_ok(), "recreate_block fails on corrections predict_block produced");
        let b2 = rb.unwrap();
        assert!(b2.block_type == blk.block_type, "block type changed");
        assert!(b2.tokens.len() == 1, "token count changed");
        assert!(b2.tokens[0] == blk.tokens[0], "token changed in reconstruction");
        assert!(pb.input.pos() as usize == pos && pa.input.pos() as usize == pos);
        assert!(pb.pending_reference == pa.pending_reference && pb.current_token_count == pa.current_token_count, "the two sides leave the block in different states");
        assert!(rec.fully_consumed(), "reconstruction did not consume the corrections exactly");
        assert!(same_dictionary_updates(), "analysis and reconstruction inserted different positions into the dictionary");
        core::mem::forget(b2);
        core::mem::forget(pb);
    }
    kani::cover!(ok && pend.is_some(), "mirrored with a pending lazy match in the pre-state");
    kani::cover!(!ok, "predict_block reports Err");
    core::mem::forget(r);
    core::mem::forget(pa);
    core::mem::forget(blk);
}
kproof_vp! { fn k02e_step_lit_lazy_h3() { token_step::<6, 2>(false, false, true, 1); } }
kproof_vp! { fn k02e_step_ref_lazy_h3() { token_step::<6, 2>(true, false, true, 1); } }
kproof_vp! { fn k02e_step_lit_greedy_h3() { token_step::<6, 2>(false, false, false, 1); } }
kproof_vp! { fn k02e_step_ref_greedy_h3() { token_step::<6, 2>(true, false, false, 1); } }

// ---------------------------------------------------------------------------
// Token mirror over a CONTRACT holder (C02, C08, C04): the matcher behind `Box<dyn HashChainHolder>` is replaced, at
// the trait seam, by an object that answers every query with an ARBITRARY result allowed by the matcher's contract,
// but answers the same query in the same dictionary state identically (memo tables shared by the analysis and the
// reconstruction side).  That is all predict_block / recreate_block may rely on:
//   * match_token_0/1: a function of (offset, prev_len, max_depth, cursor, dictionary state); Success carries a reference
//     inside the text (k05e_match_total_*);
//   * hop_match(len, calculate_hops(ref)) == ref.dist in the same state, hop counts >= 1, distinct distances at
//     distinct hop counts (k02d_hops_inverse_*);
//   * update_hash: the real DictionaryAddPolicy decides which positions are inserted; the inserted positions are logged
//     per side and compared at the end (the dictionary state is identified by that log).
// ---------------------------------------------------------------------------
use crate::hash_chain_holder::verif_harness::{UPD_LOG, UPD_N, UPD_CAP};
const MK: usize = 8;
const HK: usize = 4;
static mut M_KEY: [[u32; 5]; MK] = [[0x5EED_0021; 5]; MK];
static mut M_RES: [[u32; 3]; MK] = [[0x5EED_0022; 3]; MK];
static mut M_N: usize = 0x5EED_0000_0000_0023;
static mut H_REC: [[u32; 6]; HK] = [[0x5EED_0024; 6]; HK]; // pos, state, len, dist, hops, ok
static mut H_N: usize = 0x5EED_0000_0000_0025;
pub struct ContractHolder { policy: crate::add_policy_estimator::DictionaryAddPolicy }
fn ch_state() -> u32 { unsafe { UPD_N[UPD_SIDE] as u32 } }
impl ContractHolder {
    fn reset() { unsafe { M_N = 0; H_N = 0; UPD_N = [0; 2]; UPD_SIDE = 0; } }
    fn query(&self, offset: u32, prev_len: u32, max_depth: u32, input: &PreflateInput) -> MatchResult {
        let key = [offset, prev_len, max_depth, input.pos(), ch_state()];
        unsafe {
            let mut i = 0;
            while i < MK {
                if i < M_N && M_KEY[i][0] == key[0] && M_KEY[i][1] == key[1] && M_KEY[i][2] == key[2] && M_KEY[i][3] == key[3] && M_KEY[i][4] == key[4] {
                    return Self::decode(M_RES[i]);
                }
                i += 1;
            }
            kani::assume(M_N < MK); // bound: at most MK distinct matcher queries per harness
            let p = input.pos() + offset;
            let rem = input.size() - core::cmp::min(p, input.size());
            let mut v: u32 = kani::any();
            kani::assume(v < 5);
            let len: u32 = kani::any();
            let dist: u32 = kani::any();
            if v == 0 {
                // (a reference shorter than MIN_MATCH is not representable: PreflateTokenReference stores len - 3)
                if rem >= 3 && p >= 1 { kani::assume(len >= 3 && len <= 258 && len <= rem && dist >= 1 && dist <= p); } else { v = 3; }
            }
            M_KEY[M_N] = key;
            M_RES[M_N] = [v, len, dist];
            M_N += 1;
            Self::decode([v, len, dist])
        }
    }
    fn decode(r: [u32; 3]) -> MatchResult {
        match r[0] {
            0 => MatchResult::Success(PreflateTokenReference::new(r[1], r[2], false)),
            1 => MatchResult::DistanceLargerThanHop0(r[1], r[2]),
            2 => MatchResult::NoInput,
            3 => MatchResult::NoMoreMatchesFound,
            _ => MatchResult::MaxChainExceeded(r[1]),
        }
    }
}
impl HashChainHolder for ContractHolder {
    fn update_hash(&mut self, length: u32, input: &PreflateInput) {
        self.policy.update_hash(input.cur_chars(0), input.pos(), length, |_c, pos, len| unsafe {
            let s = UPD_SIDE;
            let mut i = 0;
            while i < len {
                if UPD_N[s] < UPD_CAP { UPD_LOG[s][UPD_N[s]] = pos + i; }
                UPD_N[s] += 1;
                i += 1;
            }
        });
    }
    fn match_token_0(&self, prev_len: u32, max_depth: u32, input: &PreflateInput) -> MatchResult { self.query(0, prev_len, max_depth, input) }
    fn match_token_1(&self, prev_len: u32, max_depth: u32, input: &PreflateInput) -> MatchResult { self.query(1, prev_len, max_depth, input) }
    fn calculate_hops(&self, target: &PreflateTokenReference, input: &PreflateInput) -> Result<u32> {
        let (pos, st) = (input.pos(), ch_state());
        unsafe {
            let mut i = 0;
            while i < HK {
                if i < H_N && H_REC[i][0] == pos && H_REC[i][1] == st && H_REC[i][2] == target.len() && H_REC[i][3] == target.dist() {
                    return if H_REC[i][5] == 1 { Ok(H_REC[i][4]) } else { err_exit_code(ExitCode::MatchNotFound, "") };
                }
                i += 1;
            }
            kani::assume(H_N < HK);
            let ok: bool = kani::any();
            let h: u32 = kani::any();
            kani::assume(h >= 1 && h < (1 << 20));
            // distinct distances sit at distinct hop counts
            let mut i = 0;
            while i < HK {
                if i < H_N && H_REC[i][0] == pos && H_REC[i][1] == st && H_REC[i][2] == target.len() && H_REC[i][5] == 1 { kani::assume(H_REC[i][4] != h); }
                i += 1;
            }
            H_REC[H_N] = [pos, st, target.len(), target.dist(), h, ok as u32];
            H_N += 1;
            if ok { Ok(h) } else { err_exit_code(ExitCode::MatchNotFound, "") }
        }
    }
    fn hop_match(&self, len: u32, hops: u32, input: &PreflateInput) -> Result<u32> {
        let (pos, st) = (input.pos(), ch_state());
        unsafe {
            let mut i = 0;
            while i < HK {
                if i < H_N && H_REC[i][0] == pos && H_REC[i][1] == st && H_REC[i][2] == len && H_REC[i][4] == hops && H_REC[i][5] == 1 {
                    return Ok(H_REC[i][3]);
                }
                i += 1;
            }
            kani::assume(H_N < HK);
            let ok: bool = kani::any();
            let d: u32 = kani::any();
            kani::assume(d >= 1 && d <= core::cmp::max(pos, 1));
            let mut i = 0;
            while i < HK {
                if i < H_N && H_REC[i][0] == pos && H_REC[i][1] == st && H_REC[i][2] == len && H_REC[i][5] == 1 { kani::assume(H_REC[i][3] != d); }
                i += 1;
            }
            H_REC[H_N] = [pos, st, len, d, hops, ok as u32];
            H_N += 1;
            if ok { Ok(d) } else { err_exit_code(ExitCode::MatchNotFound, "") }
        }
    }
    fn verify_hash(&self, _dist: Option<PreflateTokenReference>) {}
    fn checksum(&self, _checksum: &mut crate::bit_helper::DebugHash) {}
}
pub fn mk_contract_predictor<'a>(text: &'a [u8], p: &TokenPredictorParameters) -> TokenPredictor<'a> {
    TokenPredictor {
        state: Box::new(ContractHolder { policy: p.add_policy }),
        params: *p,
        pending_reference: None,
        current_token_count: 0,
        max_token_count: p.max_token_count.into(),
        input: PreflateInput::new(text),
    }
}

/// blocks of EXACTLY N tokens (N stored bytes) from an ARBITRARY common pre-state (cursor P0, any pending lazy match, any
/// counter).  The block SIZE is concrete per instance so that every Vec in play has a concrete length at every push
/// (a Vec whose first push is conditional gave path-dependent spurious pointer failures, DESIGN 6); kinds, lengths,
/// distances, bytes and parameters are symbolic.
fn contract_mirror<const T: usize, const P0: usize, const MAXTOK: usize>(stored: bool) {
    let text: [u8; T] = kani::any();
    let mut p = any_predictor_params();
    p.max_token_count = 127; // concrete: recreate_block reserves this many tokens when the count is not signalled
    ContractHolder::reset();
    let mut blk;
    let mut pos = P0;
    if stored {
        blk = PreflateTokenBlock::new(BlockType::Stored);
        kani::assume(P0 + MAXTOK <= T);
        let mut i = 0;
        while i < MAXTOK { blk.uncompressed.push(text[P0 + i]); i += 1; }
        blk.padding_bits = kani::any();
        kani::assume(blk.padding_bits < 128);
        pos += MAXTOK;
    } else {
        blk = PreflateTokenBlock::new(if kani::any() { BlockType::StaticHuff } else { BlockType::DynamicHuff });
        let mut i = 0;
        while i < MAXTOK {
            kani::assume(pos < T);
            if kani::any() {
                blk.add_literal(text[pos]);
                pos += 1;
            } else {
                let l: usize = kani::any();
                let d: usize = kani::any();
                kani::assume(valid_reference(&text[..], pos, l, d));
                let irregular: bool = kani::any();
                kani::assume(!irregular || l == 258);
                blk.add_reference(l as u32, d as u32, irregular);
                pos += l;
            }
            i += 1;
        }
    }
    let last: bool = kani::any();
    kani::assume(!last || pos == T);
    let pend: Option<PreflateTokenReference> = if kani::any() {
        let l: u32 = kani::any();
        let d: u32 = kani::any();
        kani::assume(l >= 3 && l <= 258 && (P0 as u32 + l) as usize <= T && d >= 1 && d as usize <= P0);
        Some(PreflateTokenReference::new(l, d, false))
    } else { None };
    let cnt: u32 = kani::any();
    kani::assume(cnt <= 3);
    let mut rec = Rec::new();
    let mut pa = mk_contract_predictor(&text[..], &p);
    pa.input.advance(P0 as u32);
    pa.pending_reference = pend;
    pa.current_token_count = cnt;
    unsafe { UPD_SIDE = 0; }
    let r = pa.predict_block(&blk, &mut rec, last);
    let ok = r.is_ok();
    if ok {
        let mut pb = mk_contract_predictor(&text[..], &p);
        pb.input.advance(P0 as u32);
        pb.pending_reference = pend;
        pb.current_token_count = cnt;
        unsafe { UPD_SIDE = 1; }
        let rb = pb.recreate_block(&mut rec);
        assert!(rb.is_ok(), "recreate_block fails on corrections predict_block produced");
        let b2 = rb.unwrap();
        assert!(b2.block_type == blk.block_type, "block type changed");
        assert!(b2.tokens.len() == blk.tokens.len(), "token count changed");
        let mut i = 0;
        while i < MAXTOK {
            if i < blk.tokens.len() { assert!(b2.tokens[i] == blk.tokens[i], "token changed in reconstruction"); }
            if i < blk.uncompressed.len() { assert!(b2.uncompressed[i] == blk.uncompressed[i], "stored byte changed"); }
            i += 1;
        }
        assert!(b2.uncompressed.len() == blk.uncompressed.len() && b2.padding_bits == blk.padding_bits);
        assert!(pb.input.pos() as usize == pos && pa.input.pos() as usize == pos, "cursor after the block differs");
        assert!(pb.pending_reference == pa.pending_reference && pb.current_token_count == pa.current_token_count, "the two sides leave the block in different states");
        assert!(rec.fully_consumed(), "reconstruction did not consume the corrections exactly");
        assert!(same_dictionary_updates(), "analysis and reconstruction inserted different positions into the dictionary");
        kani::cover!(true, "block mirrored");
        kani::cover!(pend.is_some(), "mirrored with a pending lazy match in the pre-state");
        core::mem::forget(b2);
        core::mem::forget(pb);
    }
    kani::cover!(ok, "mirrored");
    core::mem::forget(r);
    core::mem::forget(pa);
    core::mem::forget(blk);
}
kproof_vp! { fn k02m_contract_mirror_1() { contract_mirror::<6, 2, 1>(false); } }
kproof_vp! { fn k02m_contract_mirror_2() { contract_mirror::<6, 1, 2>(false); } }
kproof_vp! { fn k02m_contract_mirror_0() { contract_mirror::<6, 2, 0>(false); } }
kproof_vp! { fn k02m_contract_mirror_stored() { contract_mirror::<6, 1, 0>(true); contract_mirror::<6, 1, 1>(true); contract_mirror::<6, 1, 4>(true); } }

/// K04m: predict_block emits the same correction sequence as the reference build, matcher replaced on both sides by the
/// same pure function of the query (XContract in the shared export module): walk of the token list, lazy rule, length /
/// distance / hop corrections, irregular-258 flag, TokenCount signalling are all part of the stored format
fn predict_equiv<const N: usize>() {
    const T: usize = 6;
    const P0: usize = 1;
    let text: [u8; T] = kani::any();
    let mut p = any_predictor_params();
    p.max_token_count = 127;
    let ans: [[u32; 3]; 4] = kani::any();
    let hops: [u32; 4] = kani::any();
    let mut i = 0;
    while i < 4 { kani::assume(ans[i][0] < 5 && hops[i] < (1 << 20)); i += 1; }
    let dynamic: bool = kani::any();
    let mut is_ref = [false; N]; let mut lit = [0u8; N]; let mut l = [0u32; N]; let mut d = [0u32; N]; let mut irr = [false; N];
    let mut pos = P0;
    let mut i = 0;
    while i < N {
        kani::assume(pos < T);
        if kani::any() {
            let ll: usize = kani::any();
            let dd: usize = kani::any();
            kani::assume(valid_reference(&text[..], pos, ll, dd));
            is_ref[i] = true; l[i] = ll as u32; d[i] = dd as u32;
            pos += ll;
        } else {
            lit[i] = text[pos];
            pos += 1;
        }
        i += 1;
    }
    let last: bool = kani::any();
    kani::assume(!last || pos == T);
    let (lazy, gl, ml) = match p.matching_type { crate::preflate_parse_config::MatchingType::Greedy => (0u32, 0u32, 0u32), crate::preflate_parse_config::MatchingType::Lazy { good_length, max_lazy } => (1, good_length as u32, max_lazy as u32) };
    let (pk, pl) = match p.add_policy {
        crate::add_policy_estimator::DictionaryAddPolicy::AddAll => (0u32, 0u32), crate::add_policy_estimator::DictionaryAddPolicy::AddFirst(v) => (1, v as u32),
        crate::add_policy_estimator::DictionaryAddPolicy::AddFirstAndLast(v) => (2, v as u32), crate::add_policy_estimator::DictionaryAddPolicy::AddFirstExcept4kBoundary => (3, 0),
        crate::add_policy_estimator::DictionaryAddPolicy::AddFirstWith32KBoundary => (4, 0),
    };
    let pf: [u32; 19] = [0, if p.strategy == PreflateStrategy::Default { 0 } else { 1 }, p.window_bits, p.nice_length, pk, pl, p.max_token_count as u32,
        p.zlib_compatible as u32, p.max_dist_3_matches as u32, lazy, gl, ml, p.max_chain, p.min_len, 6, 0, 0, p.very_far_matches_detected as u32, p.matches_to_start_detected as u32];
    let a = super::verif_export::predict_ops_contract::<N>(&text[..], &pf, &ans, &hops, dynamic, &is_ref, &lit, &l, &d, &irr, last, P0 as u32);
    let b = preflate_ref::token_predictor::verif_export::predict_ops_contract::<N>(&text[..], &pf, &ans, &hops, dynamic, &is_ref, &lit, &l, &d, &irr, last, P0 as u32);
    assert!(a.n == b.n, "predict_block emits a different number of corrections than the reference build (or one of them fails)");
    let mut i = 0;
    while i < 24 {
        if i < a.n && a.n != 999 { assert!(a.kind[i] == b.kind[i] && a.ctx[i] == b.ctx[i] && a.val[i] == b.val[i], "predict_block emits a different correction than the reference build"); }
        i += 1;
    }
    kani::cover!(a.n != 999 && is_ref[N - 1], "a block ending in a reference token compared");
    kani::cover!(a.n == 999, "both builds report Err");
}
kproof_vp! {
    #[kani::stub(preflate_ref::preflate_error::PreflateError::add_context, crate::verif_common::stub_ref_add_context)]
    fn k04m_predict_equiv_1() { predict_equiv::<1>(); }
}
kproof_vp! {
    #[kani::stub(preflate_ref::preflate_error::PreflateError::add_context, crate::verif_common::stub_ref_add_context)]
    fn k04m_predict_equiv_2() { predict_equiv::<2>(); }
}
kproof_vp! {
    #[kani::stub(preflate_ref::preflate_error::PreflateError::add_context, crate::verif_common::stub_ref_add_context)]
    fn k04m_predict_equiv_3() { predict_equiv::<3>(); }
}

// accessors for contract stubs living in other harness modules (process.rs: k02p_*)
impl<'a> TokenPredictor<'a> {
    pub fn verif_remaining(&self) -> u32 { self.input.remaining() }
    pub fn verif_advance(&mut self, n: u32) { self.input.advance(n) }
}
