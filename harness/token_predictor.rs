//! child of `token_predictor`: predict_block / recreate_block mirror over the model chain (C02, C08)
#![allow(unused_imports, dead_code)]
use super::*;
use crate::hash_chain_holder::verif_harness::{boxed_model_holder, same_dictionary_updates, valid_reference, ModelChain, MC_T, UPD_SIDE};
use crate::verif_common::*;

pub fn mk_predictor<'a>(text: &'a [u8], p: &TokenPredictorParameters, m: ModelChain, four: bool) -> TokenPredictor<'a> {
    TokenPredictor {
        state: boxed_model_holder(p, m, four),
        params: *p,
        pending_reference: None,
        current_token_count: 0,
        max_token_count: p.max_token_count.into(),
        input: PreflateInput::new(text),
    }
}

/// every valid tokenisation of a prefix of `text` into <= maxtok tokens (what decode_block can emit)
pub fn any_tokens(text: &[u8], maxtok: usize, bt: BlockType) -> (PreflateTokenBlock, usize) {
    let mut blk = PreflateTokenBlock::new(bt);
    let n: usize = kani::any();
    kani::assume(n <= maxtok);
    let mut pos = 0usize;
    let mut i = 0;
    while i < maxtok {
        if i < n {
            kani::assume(pos < text.len());
            if kani::any() {
                blk.add_literal(text[pos]);
                pos += 1;
            } else {
                let l: usize = kani::any();
                let d: usize = kani::any();
                kani::assume(valid_reference(text, pos, l, d));
                let irregular: bool = kani::any();
                kani::assume(!irregular || l == 258);
                blk.add_reference(l as u32, d as u32, irregular);
                pos += l;
            }
        }
        i += 1;
    }
    (blk, pos)
}

fn token_mirror<const T: usize>(maxtok: usize, kmax: usize, four: bool, lazy: bool) {
    let text: [u8; T] = kani::any();
    let len: usize = kani::any();
    kani::assume(len >= 1 && len <= T);
    let p = any_predictor_params();
    kani::assume(matches!(p.matching_type, crate::preflate_parse_config::MatchingType::Lazy { .. }) == lazy);
    let m = ModelChain::any(len, kmax, if four { 4 } else { 3 });
    let bt = if kani::any() { BlockType::StaticHuff } else { BlockType::DynamicHuff };
    let (blk, covered) = any_tokens(&text[..len], maxtok, bt);
    let last: bool = kani::any();
    kani::assume(!last || covered == len);

    let mut rec = Rec::new();
    let mut pa = mk_predictor(&text[..len], &p, m, four);
    unsafe { UPD_SIDE = 0; }
    let r = pa.predict_block(&blk, &mut rec, last);
    let ok = r.is_ok();
    if ok {
        assert!(pa.input.pos() as usize == covered);
        let mut pb = mk_predictor(&text[..len], &p, m, four);
        unsafe { UPD_SIDE = 1; }
        let rb = pb.recreate_block(&mut rec);
        assert!(rb.is_ok(), "recreate_block fails on corrections predict_block produced");
        let b2 = rb.unwrap();
        assert!(b2.block_type == blk.block_type, "block type changed");
        assert!(b2.tokens.len() == blk.tokens.len(), "token count changed");
        let mut i = 0;
        while i < maxtok {
            if i < blk.tokens.len() { assert!(b2.tokens[i] == blk.tokens[i], "token changed in reconstruction"); }
            i += 1;
        }
        assert!(pb.input.pos() as usize == covered);
        assert!(rec.fully_consumed(), "reconstruction did not consume the corrections exactly");
        assert!(same_dictionary_updates(), "analysis and reconstruction inserted different positions into the dictionary");
        core::mem::forget(b2);
        core::mem::forget(pb);
    }
    kani::cover!(ok && blk.tokens.len() >= 2 && matches!(blk.tokens[1], PreflateToken::Reference(_)), "a block with a reference token was mirrored");
    kani::cover!(ok && blk.tokens.len() == maxtok, "maximum token count");
    kani::cover!(!ok, "predict_block reports Err");
    core::mem::forget(r);
    core::mem::forget(pa);
    core::mem::forget(blk);
}
kproof_vp! { fn k02e_token_mirror_greedy_h3() { token_mirror::<6>(2, 1, false, false); } }
kproof_vp! { fn k02e_token_mirror_lazy_h3() { token_mirror::<6>(2, 1, false, true); } }
kproof_vp! { fn k02e_token_mirror_greedy_h4() { token_mirror::<6>(2, 1, true, false); } }
kproof_vp! { fn k02e_token_mirror_lazy_h4() { token_mirror::<6>(2, 1, true, true); } }
kproof_vp! { fn k02e_token_mirror_lazy_h3_t8() { token_mirror::<8>(3, 2, false, true); } }


/// stored block followed by nothing: the dictionary must be driven identically by both sides (the bytes of a
/// stored block are the context of every later match)
fn stored_mirror(four: bool) {
    let text: [u8; 6] = kani::any();
    let n: usize = kani::any();
    kani::assume(n >= 1 && n <= 6);
    let p = any_predictor_params();
    let m = ModelChain::any(n, 1, if four { 4 } else { 3 });
    let mut blk = PreflateTokenBlock::new(BlockType::Stored);
    let mut i = 0;
    while i < 6 { if i < n { blk.uncompressed.push(text[i]); } i += 1; }
    blk.padding_bits = kani::any();
    kani::assume(blk.padding_bits < 32);
    let mut rec = Rec::new();
    let mut pa = mk_predictor(&text[..n], &p, m, four);
    unsafe { UPD_SIDE = 0; }
    let r = pa.predict_block(&blk, &mut rec, true);
    assert!(r.is_ok());
    let mut pb = mk_predictor(&text[..n], &p, m, four);
    unsafe { UPD_SIDE = 1; }
    let b2 = pb.recreate_block(&mut rec).unwrap();
    assert!(b2.block_type == BlockType::Stored && b2.uncompressed.len() == n && b2.padding_bits == blk.padding_bits);
    let mut i = 0;
    while i < 6 { if i < n { assert!(b2.uncompressed[i] == text[i]); } i += 1; }
    assert!(rec.fully_consumed());
    assert!(same_dictionary_updates(), "analysis and reconstruction inserted different positions into the dictionary for a stored block");
    kani::cover!(n == 6, "six stored bytes");
    core::mem::forget(b2); core::mem::forget(pa); core::mem::forget(pb); core::mem::forget(blk);
}
kproof_vp! { fn k02e_stored_mirror_h3() { stored_mirror(false); } }
kproof_vp! { fn k02e_stored_mirror_h4() { stored_mirror(true); } }

kproof_vp! {
    /// K04j: predict_block emits the same correction sequence as the reference build for the same text, tokens,
    /// parameters and candidate lists: walk order, nice-length cut-off, lazy rule, 3-byte distance limit, hop
    /// counting, length/distance/flag corrections are all part of the stored format
    fn k04j_predict_block_equiv() {
        const T: usize = 7;
        let text: [u8; T] = kani::any();
        let len: usize = kani::any();
        kani::assume(len >= 1 && len <= T);
        let p = any_predictor_params();
        kani::assume(p.min_len != 0);
        let m = ModelChain::any(len, 2, 3);
        let dynamic: bool = kani::any();
        let (blk, covered) = any_tokens(&text[..len], 3, if dynamic { BlockType::DynamicHuff } else { BlockType::StaticHuff });
        let last: bool = kani::any();
        kani::assume(!last || covered == len);
        // flatten
        let mut is_ref = [false; 3]; let mut lit = [0u8; 3]; let mut l = [0u32; 3]; let mut d = [0u32; 3];
        let mut i = 0;
        while i < 3 {
            if i < blk.tokens.len() {
                match blk.tokens[i] {
                    PreflateToken::Literal(c) => { lit[i] = c; }
                    PreflateToken::Reference(r) => { kani::assume(!r.get_irregular258()); is_ref[i] = true; l[i] = r.len(); d[i] = r.dist(); }
                }
            }
            i += 1;
        }
        let (lazy, gl, ml) = match p.matching_type { crate::preflate_parse_config::MatchingType::Greedy => (0u32, 0u32, 0u32), crate::preflate_parse_config::MatchingType::Lazy { good_length, max_lazy } => (1, good_length as u32, max_lazy as u32) };
        let (pk, pl) = match p.add_policy {
            crate::add_policy_estimator::DictionaryAddPolicy::AddAll => (0u32, 0u32), crate::add_policy_estimator::DictionaryAddPolicy::AddFirst(v) => (1, v as u32),
            crate::add_policy_estimator::DictionaryAddPolicy::AddFirstAndLast(v) => (2, v as u32), crate::add_policy_estimator::DictionaryAddPolicy::AddFirstExcept4kBoundary => (3, 0),
            crate::add_policy_estimator::DictionaryAddPolicy::AddFirstWith32KBoundary => (4, 0),
        };
        let pf: [u32; 19] = [0, if p.strategy == PreflateStrategy::Default { 0 } else { 1 }, p.window_bits, p.nice_length, pk, pl, p.max_token_count as u32,
            p.zlib_compatible as u32, p.max_dist_3_matches as u32, lazy, gl, ml, p.max_chain, p.min_len, 6, 0, 0, p.very_far_matches_detected as u32, p.matches_to_start_detected as u32];
        let n = blk.tokens.len();
        let a = super::verif_export::predict_ops(&text[..len], &pf, &m.dist, &m.cnt, dynamic, &is_ref, &lit, &l, &d, n, last);
        let b = preflate_ref::token_predictor::verif_export::predict_ops(&text[..len], &pf, &m.dist, &m.cnt, dynamic, &is_ref, &lit, &l, &d, n, last);
        assert!(a.n == b.n, "predict_block emits a different number of corrections than the reference build (or one of them fails)");
        let mut i = 0;
        while i < 24 {
            if i < a.n && a.n != 999 { assert!(a.kind[i] == b.kind[i] && a.ctx[i] == b.ctx[i] && a.val[i] == b.val[i], "predict_block emits a different correction than the reference build"); }
            i += 1;
        }
        kani::cover!(a.n != 999 && n >= 2 && is_ref[1], "a block with a reference token compared");
        kani::cover!(a.n == 999, "both builds report Err");
        core::mem::forget(blk);
    }
}

/// Token mirror with CONCRETE structure (text length, number and kinds of tokens) and symbolic content
/// (text bytes, reference lengths/distances, candidate lists, parameters): §1.2 of DESIGN.md.
fn token_mirror_shape<const T: usize, const NT: usize>(kinds: [bool; NT], four: bool, lazy: bool, kmax: usize) {
    let text: [u8; T] = kani::any();
    let p = any_predictor_params();
    kani::assume(matches!(p.matching_type, crate::preflate_parse_config::MatchingType::Lazy { .. }) == lazy);
    let m = ModelChain::any(T, kmax, if four { 4 } else { 3 });
    let mut blk = PreflateTokenBlock::new(BlockType::StaticHuff);
    let mut pos = 0usize;
    let mut i = 0;
    while i < NT {
        kani::assume(pos < T);
        if kinds[i] {
            let l: usize = kani::any();
            let d: usize = kani::any();
            kani::assume(valid_reference(&text[..], pos, l, d));
            blk.tokens.push(PreflateToken::new_reference(l as u32, d as u32, false));
            pos += l;
        } else {
            blk.tokens.push(PreflateToken::Literal(text[pos]));
            pos += 1;
        }
        i += 1;
    }
    let last = pos == T;
    let mut rec = Rec::new();
    let mut pa = mk_predictor(&text[..], &p, m, four);
    unsafe { UPD_SIDE = 0; }
    let r = pa.predict_block(&blk, &mut rec, last);
    let ok = r.is_ok();
    if ok {
        let mut pb = mk_predictor(&text[..], &p, m, four);
        unsafe { UPD_SIDE = 1; }
        let rb = pb.recreate_block(&mut rec);
        assert!(rb.is_ok(), "recreate_block fails on corrections predict_block produced");
        let b2 = rb.unwrap();
        assert!(b2.tokens.len() == NT, "token count changed");
        let mut i = 0;
        while i < NT { assert!(b2.tokens[i] == blk.tokens[i], "token changed in reconstruction"); i += 1; }
        assert!(pb.input.pos() as usize == pos);
        assert!(rec.fully_consumed(), "reconstruction did not consume the corrections exactly");
        assert!(same_dictionary_updates(), "analysis and reconstruction inserted different positions into the dictionary");
        core::mem::forget(b2);
        core::mem::forget(pb);
    }
    kani::cover!(ok, "mirrored");
    kani::cover!(!ok, "predict_block reports Err");
    core::mem::forget(r);
    core::mem::forget(pa);
    core::mem::forget(blk);
}
kproof_vp! { fn k02e_shape_lr_greedy_h3() { token_mirror_shape::<6, 2>([false, true], false, false, 1); } }
kproof_vp! { fn k02e_shape_lr_lazy_h3() { token_mirror_shape::<6, 2>([false, true], false, true, 1); } }

/// ONE block of ONE token from an ARBITRARY common pre-state (cursor at P0 inside the text, any pending lazy match,
/// any token counter): the inductive step of the block/token mirror.  Both sides start from the same state because
/// after every mirrored block they are in the same state (positions equal, dictionary updates equal, checked below);
/// a side that carries state across the block boundary which the other side resets is caught here.
fn token_step<const T: usize, const P0: usize>(is_ref: bool, four: bool, lazy: bool, kmax: usize) {
    let text: [u8; T] = kani::any();
    let p = any_predictor_params();
    kani::assume(matches!(p.matching_type, crate::preflate_parse_config::MatchingType::Lazy { .. }) == lazy);
    let m = ModelChain::any(T, kmax, if four { 4 } else { 3 });
    let bt = if kani::any() { BlockType::StaticHuff } else { BlockType::DynamicHuff };
    let mut blk = PreflateTokenBlock::new(bt);
    let mut pos = P0;
    if is_ref {
        let l: usize = kani::any();
        let d: usize = kani::any();
        kani::assume(valid_reference(&text[..], pos, l, d));
        blk.tokens.push(PreflateToken::new_reference(l as u32, d as u32, false));
        pos += l;
    } else {
        blk.tokens.push(PreflateToken::Literal(text[pos]));
        pos += 1;
    }
    let last = pos == T;
    // common pre-state
    let pend: Option<PreflateTokenReference> = if kani::any() {
        let l: usize = kani::any();
        let d: usize = kani::any();
        kani::assume(valid_reference(&text[..], P0, l, d));
        Some(PreflateTokenReference::new(l as u32, d as u32, false))
    } else { None };
    let cnt: u32 = kani::any();
    kani::assume(cnt <= 3);
    let mut rec = Rec::new();
    let mut pa = mk_predictor(&text[..], &p, m, four);
    pa.input.advance(P0 as u32);
    pa.pending_reference = pend;
    pa.current_token_count = cnt;
    unsafe { UPD_SIDE = 0; }
    let r = pa.predict_block(&blk, &mut rec, last);
    let ok = r.is_ok();
    if ok {
        let mut pb = mk_predictor(&text[..], &p, m, four);
        pb.input.advance(P0 as u32);
        pb.pending_reference = pend;
        pb.current_token_count = cnt;
        unsafe { UPD_SIDE = 1; }
        let rb = pb.recreate_block(&mut rec);
        assert!(rb.is_ok(), "recreate_block fails on corrections predict_block produced");
        let b2 = rb.unwrap();
        assert!(b2.block_type == blk.block_type, "block type changed");
        assert!(b2.tokens.len() == 1, "token count changed");
        assert!(b2.tokens[0] == blk.tokens[0], "token changed in reconstruction");
        assert!(pb.input.pos() as usize == pos && pa.input.pos() as usize == pos);
        assert!(pb.pending_reference == pa.pending_reference && pb.current_token_count == pa.current_token_count, "the two sides leave the block in different states");
        assert!(rec.fully_consumed(), "reconstruction did not consume the corrections exactly");
        assert!(same_dictionary_updates(), "analysis and reconstruction inserted different positions into the dictionary");
        core::mem::forget(b2);
        core::mem::forget(pb);
    }
    kani::cover!(ok && pend.is_some(), "mirrored with a pending lazy match in the pre-state");
    kani::cover!(!ok, "predict_block reports Err");
    core::mem::forget(r);
    core::mem::forget(pa);
    core::mem::forget(blk);
}
kproof_vp! { fn k02e_step_lit_lazy_h3() { token_step::<6, 2>(false, false, true, 1); } }
kproof_vp! { fn k02e_step_ref_lazy_h3() { token_step::<6, 2>(true, false, true, 1); } }
kproof_vp! { fn k02e_step_lit_greedy_h3() { token_step::<6, 2>(false, false, false, 1); } }
kproof_vp! { fn k02e_step_ref_greedy_h3() { token_step::<6, 2>(true, false, false, 1); } }
