//! child of `token_predictor`: predict_block / recreate_block mirror over the model chain (C02, C08)
#![allow(unused_imports, dead_code)]
use super::*;
use crate::hash_chain_holder::verif_harness::{boxed_model_holder, same_dictionary_updates, valid_reference, ModelChain, MC_T, UPD_SIDE};
use crate::verif_common::*;

pub fn mk_predictor<'a>(text: &'a [u8], p: &TokenPredictorParameters, m: ModelChain, four: bool) -> TokenPredictor<'a> {
    TokenPredictor {
        state: boxed_model_holder(p, m, four),
        params: *p,
        pending_reference: None,
        current_token_count: 0,
        max_token_count: p.max_token_count.into(),
        input: PreflateInput::new(text),
    }
}

/// every valid tokenisation of a prefix of `text` into <= maxtok tokens (what decode_block can emit)
pub fn any_tokens(text: &[u8], maxtok: usize, bt: BlockType) -> (PreflateTokenBlock, usize) {
    let mut blk = PreflateTokenBlock::new(bt);
    let n: usize = kani::any();
    kani::assume(n <= maxtok);
    let mut pos = 0usize;
    let mut i = 0;
    while i < maxtok {
        if i < n {
            kani::assume(pos < text.len());
            if kani::any() {
                blk.add_literal(text[pos]);
                pos += 1;
            } else {
                let l: usize = kani::any();
                let d: usize = kani::any();
                kani::assume(valid_reference(text, pos, l, d));
                let irregular: bool = kani::any();
                kani::assume(!irregular || l == 258);
                blk.add_reference(l as u32, d as u32, irregular);
                pos += l;
            }
        }
        i += 1;
    }
    (blk, pos)
}

fn token_mirror<const T: usize>(maxtok: usize, kmax: usize, four: bool, lazy: bool) {
    let text: [u8; T] = kani::any();
    let len: usize = kani::any();
    kani::assume(len >= 1 && len <= T);
    let p = any_predictor_params();
    kani::assume(matches!(p.matching_type, crate::preflate_parse_config::MatchingType::Lazy { .. }) == lazy);
    let m = ModelChain::any(len, kmax, if four { 4 } else { 3 });
    let bt = if kani::any() { BlockType::StaticHuff } else { BlockType::DynamicHuff };
    let (blk, covered) = any_tokens(&text[..len], maxtok, bt);
    let last: bool = kani::any();
    kani::assume(!last || covered == len);

    let mut rec = Rec::new();
    let mut pa = mk_predictor(&text[..len], &p, m, four);
    unsafe { UPD_SIDE = 0; }
    let r = pa.predict_block(&blk, &mut rec, last);
    let ok = r.is_ok();
    if ok {
        assert!(pa.input.pos() as usize == covered);
        let mut pb = mk_predictor(&text[..len], &p, m, four);
        unsafe { UPD_SIDE = 1; }
        let rb = pb.recreate_block(&mut rec);
        assert!(rb.is_ok(), "recreate_block fails on corrections predict_block produced");
        let b2 = rb.unwrap();
        assert!(b2.block_type == blk.block_type, "block type changed");
        assert!(b2.tokens.len() == blk.tokens.len(), "token count changed");
        let mut i = 0;
        while i < maxtok {
            if i < blk.tokens.len() { assert!(b2.tokens[i] == blk.tokens[i], "token changed in reconstruction"); }
            i += 1;
        }
        assert!(pb.input.pos() as usize == covered);
        assert!(rec.fully_consumed(), "reconstruction did not consume the corrections exactly");
        assert!(same_dictionary_updates(), "analysis and reconstruction inserted different positions into the dictionary");
        core::mem::forget(b2);
        core::mem::forget(pb);
    }
    kani::cover!(ok && blk.tokens.len() >= 2 && matches!(blk.tokens[1], PreflateToken::Reference(_)), "a block with a reference token was mirrored");
    kani::cover!(ok && blk.tokens.len() == maxtok, "maximum token count");
    kani::cover!(!ok, "predict_block reports Err");
    core::mem::forget(r);
    core::mem::forget(pa);
    core::mem::forget(blk);
}
kproof! { fn k02e_token_mirror_greedy_h3() { token_mirror::<8>(3, 2, false, false); } }
kproof! { fn k02e_token_mirror_lazy_h3() { token_mirror::<8>(3, 2, false, true); } }
kproof! { fn k02e_token_mirror_greedy_h4() { token_mirror::<8>(3, 2, true, false); } }
kproof! { fn k02e_token_mirror_lazy_h4() { token_mirror::<8>(3, 2, true, true); } }
kproof! { fn k02e_token_mirror_lazy_h3_t10() { token_mirror::<10>(4, 3, false, true); } }

/// stored block followed by nothing: the dictionary must be driven identically by both sides (the bytes of a
/// stored block are the context of every later match)
fn stored_mirror(four: bool) {
    let text: [u8; 6] = kani::any();
    let n: usize = kani::any();
    kani::assume(n >= 1 && n <= 6);
    let p = any_predictor_params();
    let m = ModelChain::any(n, 1, if four { 4 } else { 3 });
    let mut blk = PreflateTokenBlock::new(BlockType::Stored);
    let mut i = 0;
    while i < 6 { if i < n { blk.uncompressed.push(text[i]); } i += 1; }
    blk.padding_bits = kani::any();
    kani::assume(blk.padding_bits < 32);
    let mut rec = Rec::new();
    let mut pa = mk_predictor(&text[..n], &p, m, four);
    unsafe { UPD_SIDE = 0; }
    let r = pa.predict_block(&blk, &mut rec, true);
    assert!(r.is_ok());
    let mut pb = mk_predictor(&text[..n], &p, m, four);
    unsafe { UPD_SIDE = 1; }
    let b2 = pb.recreate_block(&mut rec).unwrap();
    assert!(b2.block_type == BlockType::Stored && b2.uncompressed.len() == n && b2.padding_bits == blk.padding_bits);
    let mut i = 0;
    while i < 6 { if i < n { assert!(b2.uncompressed[i] == text[i]); } i += 1; }
    assert!(rec.fully_consumed());
    assert!(same_dictionary_updates(), "analysis and reconstruction inserted different positions into the dictionary for a stored block");
    kani::cover!(n == 6, "six stored bytes");
    core::mem::forget(b2); core::mem::forget(pa); core::mem::forget(pb); core::mem::forget(blk);
}
kproof! { fn k02e_stored_mirror_h3() { stored_mirror(false); } }
kproof! { fn k02e_stored_mirror_h4() { stored_mirror(true); } }
