//! child of `huffman_encoding`
#![allow(unused_imports, dead_code)]
use super::*;
use crate::verif_common::*;

/// constants printed by native/gen_tables.rs from the *current* source on this run
pub mod gen {
    include!(concat!(env!("VERIF_GEN"), "/fixed_tables.rs"));
}

/// stub for HuffmanReader::create_fixed: the precomputed trees
pub fn stub_create_fixed() -> Result<HuffmanReader> {
    Ok(HuffmanReader {
        lit_huff_code_tree: gen::FIXED_LIT_TREE.to_vec(),
        dist_huff_code_tree: gen::FIXED_DIST_TREE.to_vec(),
    })
}

/// stub for HuffmanWriter::start_fixed_huffman_table: the precomputed code tables
pub fn stub_start_fixed() -> HuffmanWriter {
    HuffmanWriter {
        lit_code_lengths: gen::FIXED_LIT_LEN.to_vec(),
        lit_huffman_codes: gen::FIXED_LIT_CODE.to_vec(),
        dist_code_lengths: gen::FIXED_DIST_LEN.to_vec(),
        dist_huffman_codes: gen::FIXED_DIST_CODE.to_vec(),
    }
}

kproof! {
    /// K07b0: the real constructors return exactly the precomputed constants (no symbolic
    /// input; discharges the assumption made by every harness that stubs them).
    fn k07b0_fixed_tables_eq() {
        let r = HuffmanReader::create_fixed().unwrap();
        let w = HuffmanWriter::start_fixed_huffman_table();
        assert!(r.lit_huff_code_tree.len() == gen::FIXED_LIT_TREE.len());
        assert!(r.dist_huff_code_tree.len() == gen::FIXED_DIST_TREE.len());
        let mut i = 0;
        while i < gen::FIXED_LIT_TREE.len() { assert!(r.lit_huff_code_tree[i] == gen::FIXED_LIT_TREE[i]); i += 1; }
        let mut i = 0;
        while i < gen::FIXED_DIST_TREE.len() { assert!(r.dist_huff_code_tree[i] == gen::FIXED_DIST_TREE[i]); i += 1; }
        let mut i = 0;
        while i < 288 {
            assert!(w.lit_code_lengths[i] == gen::FIXED_LIT_LEN[i] && w.lit_huffman_codes[i] == gen::FIXED_LIT_CODE[i]);
            i += 1;
        }
        let mut i = 0;
        while i < 32 {
            assert!(w.dist_code_lengths[i] == gen::FIXED_DIST_LEN[i] && w.dist_huffman_codes[i] == gen::FIXED_DIST_CODE[i]);
            i += 1;
        }
        kani::cover!(true, "reached");
    }
}

kproof! {
    /// K03d-fixed: the precomputed fixed literal/length tree decodes every symbol's RFC code
    /// (typed in from RFC 1951 §3.2.6) to that symbol, and the writer's code is that RFC code.
    fn k03d_fixed_code_vs_rfc() {
        let sym: u16 = kani::any();
        kani::assume(sym < 288);
        // RFC code value (MSB-first) and length
        let (code, len): (u32, u32) = if sym <= 143 { (0b00110000 + sym as u32, 8) }
            else if sym <= 255 { (0b110010000 + (sym as u32 - 144), 9) }
            else if sym <= 279 { (sym as u32 - 256, 7) }
            else { (0b11000000 + (sym as u32 - 280), 8) };
        // writer side: stored LSB-first (bit-reversed)
        let mut rev = 0u32;
        let mut i = 0;
        while i < 9 { if i < len { rev |= ((code >> (len - 1 - i)) & 1) << i; } i += 1; }
        assert!(gen::FIXED_LIT_LEN[sym as usize] as u32 == len);
        assert!(gen::FIXED_LIT_CODE[sym as usize] as u32 == rev);
        // reader side: walk the real decode_symbol over those bits
        struct One { v: u32 }
        impl crate::bit_reader::ReadBits for One {
            fn get(&mut self, c: u32) -> std::io::Result<u32> { let r = self.v & ((1 << c) - 1); self.v >>= c; Ok(r) }
        }
        let mut one = One { v: rev };
        let tree = gen::FIXED_LIT_TREE;
        let got = decode_symbol(&mut one, &tree).unwrap();
        assert!(got == sym);
        // distance code: 5 bits, MSB first
        let d: u16 = kani::any();
        kani::assume(d < 32);
        let mut drev = 0u32;
        let mut i = 0;
        while i < 5 { drev |= (((d as u32) >> (4 - i)) & 1) << i; i += 1; }
        assert!(gen::FIXED_DIST_LEN[d as usize] == 5 && gen::FIXED_DIST_CODE[d as usize] as u32 == drev);
        let mut one = One { v: drev };
        let dtree = gen::FIXED_DIST_TREE;
        assert!(decode_symbol(&mut one, &dtree).unwrap() == d);
        kani::cover!(sym == 287 && d == 31, "last symbols");
        kani::cover!(sym == 144, "first 9-bit literal");
    }
}
