//! child of `huffman_encoding`
#![allow(unused_imports, dead_code)]
use super::*;
use crate::verif_common::*;

/// constants printed by native/gen_tables.rs from the *current* source on this run
pub mod gen {
    include!(concat!(env!("VERIF_GEN"), "/fixed_tables.rs"));
}

/// stub for HuffmanReader::create_fixed: the precomputed trees
pub fn stub_create_fixed() -> Result<HuffmanReader> {
    Ok(HuffmanReader {
        lit_huff_code_tree: gen::FIXED_LIT_TREE.to_vec(),
        dist_huff_code_tree: gen::FIXED_DIST_TREE.to_vec(),
    })
}

/// stub for HuffmanWriter::start_fixed_huffman_table: the precomputed code tables
pub fn stub_start_fixed() -> HuffmanWriter {
    HuffmanWriter {
        lit_code_lengths: gen::FIXED_LIT_LEN.to_vec(),
        lit_huffman_codes: gen::FIXED_LIT_CODE.to_vec(),
        dist_code_lengths: gen::FIXED_DIST_LEN.to_vec(),
        dist_huffman_codes: gen::FIXED_DIST_CODE.to_vec(),
    }
}

kproof! {
    /// K07b0: the real constructors return exactly the precomputed constants (no symbolic
    /// input; discharges the assumption made by every harness that stubs them).
    fn k07b0_fixed_tables_eq() {
        let r = HuffmanReader::create_fixed().unwrap();
        let w = HuffmanWriter::start_fixed_huffman_table();
        assert!(r.lit_huff_code_tree.len() == gen::FIXED_LIT_TREE.len());
        assert!(r.dist_huff_code_tree.len() == gen::FIXED_DIST_TREE.len());
        let mut i = 0;
        while i < gen::FIXED_LIT_TREE.len() { assert!(r.lit_huff_code_tree[i] == gen::FIXED_LIT_TREE[i]); i += 1; }
        let mut i = 0;
        while i < gen::FIXED_DIST_TREE.len() { assert!(r.dist_huff_code_tree[i] == gen::FIXED_DIST_TREE[i]); i += 1; }
        let mut i = 0;
        while i < 288 {
            assert!(w.lit_code_lengths[i] == gen::FIXED_LIT_LEN[i] && w.lit_huffman_codes[i] == gen::FIXED_LIT_CODE[i]);
            i += 1;
        }
        let mut i = 0;
        while i < 32 {
            assert!(w.dist_code_lengths[i] == gen::FIXED_DIST_LEN[i] && w.dist_huffman_codes[i] == gen::FIXED_DIST_CODE[i]);
            i += 1;
        }
        kani::cover!(true, "reached");
    }
}

kproof! {
    /// K03d-fixed: the precomputed fixed literal/length tree decodes every symbol's RFC code
    /// (typed in from RFC 1951 §3.2.6) to that symbol, and the writer's code is that RFC code.
    fn k03d_fixed_code_vs_rfc() {
        let sym: u16 = kani::any();
        kani::assume(sym < 288);
        // RFC code value (MSB-first) and length
        let (code, len): (u32, u32) = if sym <= 143 { (0b00110000 + sym as u32, 8) }
            else if sym <= 255 { (0b110010000 + (sym as u32 - 144), 9) }
            else if sym <= 279 { (sym as u32 - 256, 7) }
            else { (0b11000000 + (sym as u32 - 280), 8) };
        // writer side: stored LSB-first (bit-reversed)
        let mut rev = 0u32;
        let mut i = 0;
        while i < 9 { if i < len { rev |= ((code >> (len - 1 - i)) & 1) << i; } i += 1; }
        assert!(gen::FIXED_LIT_LEN[sym as usize] as u32 == len);
        assert!(gen::FIXED_LIT_CODE[sym as usize] as u32 == rev);
        // reader side: walk the real decode_symbol over those bits
        struct One { v: u32 }
        impl crate::bit_reader::ReadBits for One {
            fn get(&mut self, c: u32) -> std::io::Result<u32> { let r = self.v & ((1 << c) - 1); self.v >>= c; Ok(r) }
        }
        let mut one = One { v: rev };
        let tree = gen::FIXED_LIT_TREE;
        let got = decode_symbol(&mut one, &tree).unwrap();
        assert!(got == sym);
        // distance code: 5 bits, MSB first
        let d: u16 = kani::any();
        kani::assume(d < 32);
        let mut drev = 0u32;
        let mut i = 0;
        while i < 5 { drev |= (((d as u32) >> (4 - i)) & 1) << i; i += 1; }
        assert!(gen::FIXED_DIST_LEN[d as usize] == 5 && gen::FIXED_DIST_CODE[d as usize] as u32 == drev);
        let mut one = One { v: drev };
        let dtree = gen::FIXED_DIST_TREE;
        assert!(decode_symbol(&mut one, &dtree).unwrap() == d);
        kani::cover!(sym == 287 && d == 31, "last symbols");
        kani::cover!(sym == 144, "first 9-bit literal");
    }
}

use crate::preflate_token::{BlockType, PreflateToken, PreflateTokenBlock, PreflateTokenReference};

kproof! {
    /// K07x: writer token coding under an ARBITRARY (dynamic) code: for every code length 1..=15 and code
    /// value of the length symbol, the distance symbol and the end-of-block symbol, every (length, distance)
    /// and every bit offset at which the token starts, the bits emitted by write_literal / write_distance and
    /// the extra-bit writes are exactly code ‖ extra ‖ code ‖ extra ‖ EOB, LSB first, nothing lost.
    #[kani::stub(crate::bit_writer::BitWriter::flush_whole_bytes, crate::verif_common::stub_flush_whole_bytes)]
    fn k07x_dynamic_token_write() {
        let len: u32 = kani::any();
        let dist: u32 = kani::any();
        kani::assume(len >= 3 && len <= 258 && dist >= 1 && dist <= 32768);
        let lsym = 257 + crate::preflate_constants::quantize_length(len);
        let dsym = crate::preflate_constants::quantize_distance(dist);
        let (ll, lc, dl, dc, el, ec): (u8, u16, u8, u16, u8, u16) = kani::any();
        kani::assume(ll >= 1 && ll <= 15 && dl >= 1 && dl <= 15 && el >= 1 && el <= 15);
        kani::assume((lc as u32) < (1u32 << ll) && (dc as u32) < (1u32 << dl) && (ec as u32) < (1u32 << el));
        let mut w = HuffmanWriter { lit_code_lengths: vec![0u8; 286], lit_huffman_codes: vec![0u16; 286], dist_code_lengths: vec![0u8; 30], dist_huffman_codes: vec![0u16; 30] };
        w.lit_code_lengths[lsym] = ll; w.lit_huffman_codes[lsym] = lc;
        w.lit_code_lengths[256] = el; w.lit_huffman_codes[256] = ec;
        w.dist_code_lengths[dsym] = dl; w.dist_huffman_codes[dsym] = dc;
        // start at an arbitrary bit offset (bits already pending in the writer)
        let pre: u32 = kani::any();
        kani::assume(pre <= 7);
        let mut bw = BitWriter::default();
        let mut out: Vec<u8> = Vec::with_capacity(16);
        bw.write(0, pre, &mut out);
        // the writer's token sequence (same calls as DeflateWriter::encode_block_with_decoder, regular reference)
        let lx = crate::preflate_constants::LENGTH_EXTRA_TABLE[lsym - 257] as u32;
        let dx = crate::preflate_constants::DIST_EXTRA_TABLE[dsym] as u32;
        let lev = len - 3 - crate::preflate_constants::LENGTH_BASE_TABLE[lsym - 257] as u32;
        let dev = dist - 1 - crate::preflate_constants::DIST_BASE_TABLE[dsym] as u32;
        let mut blk = PreflateTokenBlock::new(BlockType::DynamicHuff);
        blk.tokens.push(PreflateToken::Reference(PreflateTokenReference::new(len, dist, false)));
        let mut dw = crate::deflate_writer::DeflateWriter::verif_new_with(bw, out);
        dw.verif_encode_tokens(&blk, &w);
        dw.flush_with_padding(0);
        let out = dw.verif_take_output();
        // expected bit string
        let mut exp: u128 = 0;
        let mut n: u32 = pre;
        exp |= (lc as u128) << n; n += ll as u32;
        exp |= (lev as u128) << n; n += lx;
        exp |= (dc as u128) << n; n += dl as u32;
        exp |= (dev as u128) << n; n += dx;
        exp |= (ec as u128) << n; n += el as u32;
        let nbytes = ((n + 7) / 8) as usize;
        assert!(out.len() == nbytes, "number of bytes written differs");
        let mut i = 0;
        while i < 12 { if i < nbytes { assert!(out[i] == ((exp >> (8 * i)) & 0xff) as u8, "token bits differ from code ‖ extra ‖ code ‖ extra ‖ EOB"); } i += 1; }
        kani::cover!(dl == 15 && dx == 13 && pre == 7, "deepest distance code, most extra bits, worst bit offset");
        kani::cover!(ll == 1 && lx == 0, "one-bit length code");
        core::mem::forget(out); core::mem::forget(blk); core::mem::forget(w);
    }
}

// ---------------------------------------------------------------------------
// Dynamic header: HuffmanOriginalEncoding::read / write (C07, C05)
// ---------------------------------------------------------------------------
/// bit source that replays a concrete SCRIPT for the first calls (header counts and the code-length code, so
/// that the Huffman tree of the code-length alphabet is concrete) and hands out symbolic bits afterwards
/// (which RLE items follow, their extra bits); everything is recorded for the comparison with the writer
pub const SB_N: usize = 64;
pub struct ScriptBits {
    pub script: [(u32, u8); 24],
    pub m: usize,
    pub val: [u32; SB_N],
    pub cnt: [u8; SB_N],
    pub n: usize,
    pub budget: usize,
}
impl crate::bit_reader::ReadBits for ScriptBits {
    fn get(&mut self, cbit: u32) -> std::io::Result<u32> {
        kani::assume(self.n < self.budget);
        let v = if self.n < self.m {
            assert!(self.script[self.n].1 as u32 == cbit, "script out of step with the reader");
            self.script[self.n].0
        } else {
            let x: u32 = kani::any();
            x & ((1u32 << cbit) - 1)
        };
        self.val[self.n] = v;
        self.cnt[self.n] = cbit as u8;
        self.n += 1;
        Ok(v)
    }
}

/// HLIT = 257, HDIST = 1 (258 code lengths), HCLEN = 19 - 15 = 4..: code-length code with lengths
/// {0: 2, 8: 2, 18: 2, 16: 3, 17: 3} (complete), all other symbols unused.
fn dyn_header(max_gets: usize) {
    // order: 16 17 18 0 8 7 9 6 10 5 11 4 12 3 13 2 14 1 15 -> HCLEN = 5 entries (16,17,18,0,8)
    let mut script = [(0u32, 0u8); 24];
    script[0] = (0, 5); // HLIT - 257
    script[1] = (0, 5); // HDIST - 1
    script[2] = (1, 4); // HCLEN - 4 = 1 -> 5 entries
    script[3] = (3, 3); // 16
    script[4] = (3, 3); // 17
    script[5] = (2, 3); // 18
    script[6] = (2, 3); // 0
    script[7] = (2, 3); // 8
    let mut bits = ScriptBits { script, m: 8, val: [0; SB_N], cnt: [0; SB_N], n: 0, budget: max_gets };
    let r = HuffmanOriginalEncoding::read(&mut bits);
    if let Ok(enc) = &r {
        assert!(enc.num_literals == 257 && enc.num_dist == 1 && enc.num_code_lengths == 5);
        // C05: the run-length items cover exactly HLIT + HDIST code lengths (what predict_ld_trees asserts)
        let mut total = 0usize;
        let mut i = 0;
        while i < 8 {
            if i < enc.lengths.len() { total += if enc.lengths[i].0 == TreeCodeType::Code { 1 } else { enc.lengths[i].1 as usize }; }
            i += 1;
        }
        assert!(enc.lengths.len() <= 7); // 16 reads: two long zero runs (3 reads each) + at most 5 more items
        assert!(total == 258, "accepted a code length table that does not have HLIT + HDIST entries");
        // C07: writing the header back gives exactly the bits that were read
        let mut bw = BitWriter::default();
        let mut out: Vec<u8> = Vec::with_capacity(32);
        enc.write(&mut bw, &mut out).unwrap();
        bw.pad(0, &mut out);
        let mut exp: u128 = 0;
        let mut nb: u32 = 0;
        let mut i = 0;
        while i < SB_N {
            if i < bits.n {
                // Huffman codes are read bit by bit (get(1)): the recorded order IS the stream order
                exp |= (bits.val[i] as u128) << nb;
                nb += bits.cnt[i] as u32;
            }
            i += 1;
        }
        assert!(nb <= 120);
        let nbytes = ((nb + 7) / 8) as usize;
        assert!(out.len() == nbytes, "rewritten dynamic header has a different length");
        let mut i = 0;
        while i < 16 { if i < nbytes { assert!(out[i] == ((exp >> (8 * i)) & 0xff) as u8, "rewritten dynamic header differs from the bits that were read"); } i += 1; }
        core::mem::forget(out);
    }
    kani::cover!(matches!(&r, Ok(e) if e.lengths.len() == 3), "accepted: three run-length items");
    kani::cover!(matches!(&r, Ok(e) if e.lengths.len() >= 4 && e.lengths[3].0 == TreeCodeType::Repeat), "accepted: a repeat code (16) late in the table");
    kani::cover!(r.is_err(), "rejected (items overrun HLIT + HDIST)");
    core::mem::forget(r);
}
kproof! {
    /// K07c: dynamic header with a concrete code-length code and symbolic run-length items: read is total, accepts
    /// only tables with exactly HLIT + HDIST entries, and write reproduces the bits read
    #[kani::stub(crate::bit_writer::BitWriter::flush_whole_bytes, crate::verif_common::stub_flush_whole_bytes)]
    fn k07c_dyn_header_rt() { dyn_header(8 + 16); }
}

// ---------------------------------------------------------------------------
// K07e: postcondition of HuffmanOriginalEncoding::read with SYMBOLIC HLIT / HDIST / HCLEN: the code-length Huffman tree
// and decode_symbol are replaced by their contracts (tree: Err or some tree; decode_symbol: Err or any u16, one bit-reader
// tick per call), so that what is decided is read()'s own loop: the counts, the placement of the code-length code, the run
// accounting and the final "exactly HLIT + HDIST entries" check that predict_ld_trees later asserts (C05) and that
// write() relies on (C07).
// ---------------------------------------------------------------------------
pub fn contract_code_tree(_code_lengths: &[u8]) -> Result<Vec<i32>> {
    if kani::any() { return err_exit_code(ExitCode::InvalidDeflate, ""); }
    Ok(Vec::new())
}
pub static mut DS_CALLS: usize = 0x5EED_0000_0000_0061;
pub static mut DS_MAX: usize = 0x5EED_0000_0000_0062;
pub fn contract_decode_symbol<R: crate::bit_reader::ReadBits>(bit_reader: &mut R, _huffman_tree: &[i32]) -> Result<u16> {
    let _tick = bit_reader.get(1)?; // consumes input like the real one (>= 1 bit per symbol)
    unsafe { kani::assume(DS_CALLS < DS_MAX); DS_CALLS += 1; } // bound: at most DS_MAX run-length symbols per table
    let s: u16 = kani::any();
    kani::assume(s <= 19);
    Ok(s)
}
fn dyn_header_post(hlit_field: u32, hdist_field: u32) { dyn_header_post_n::<6>(hlit_field, hdist_field) }
fn dyn_header_post_n<const ITEMS: usize>(hlit_field: u32, hdist_field: u32) {
    // HLIT / HDIST scripted (concrete table size per instance), HCLEN, the code-length code and every item symbolic;
    // read budget: 3 count fields + up to 19 code-length-code fields + ITEMS symbols with at most one extra field each
    let mut script = [(0u32, 0u8); 24];
    script[0] = (hlit_field, 5);
    script[1] = (hdist_field, 5);
    unsafe { DS_CALLS = 0; DS_MAX = ITEMS; }
    let mut bits = ScriptBits { script, m: 2, val: [0; SB_N], cnt: [0; SB_N], n: 0, budget: 3 + 19 + 2 * ITEMS };
    let r = HuffmanOriginalEncoding::read(&mut bits);
    if let Ok(enc) = &r {
        assert!(enc.num_literals == hlit_field as usize + 257, "HLIT");
        assert!(enc.num_dist == hdist_field as usize + 1, "HDIST");
        assert!(enc.num_code_lengths >= 4 && enc.num_code_lengths <= 19 && enc.num_code_lengths == bits.val[2] as usize + 4, "HCLEN");
        let mut i = 0;
        while i < 19 {
            let s = crate::preflate_constants::TREE_CODE_ORDER_TABLE[i];
            if i < enc.num_code_lengths { assert!(enc.code_lengths[s] as u32 == bits.val[3 + i], "code-length code entry misplaced"); }
            else { assert!(enc.code_lengths[s] == 0, "code-length code entry beyond HCLEN is not zero"); }
            i += 1;
        }
        assert!(enc.lengths.len() <= ITEMS);
        let mut total = 0usize;
        let mut i = 0;
        while i < ITEMS {
            if i < enc.lengths.len() {
                let (t, v) = enc.lengths[i];
                let ok = match t { TreeCodeType::Code => v <= 15, TreeCodeType::Repeat => v >= 3 && v <= 6, TreeCodeType::ZeroShort => v >= 3 && v <= 10, TreeCodeType::ZeroLong => v >= 11 && v <= 138 };
                assert!(ok, "run-length item outside its RFC 1951 range");
                total += if t == TreeCodeType::Code { 1 } else { v as usize };
            }
            i += 1;
        }
        assert!(total == enc.num_literals + enc.num_dist, "accepted a code length table that does not have exactly HLIT + HDIST entries");
    }
    kani::cover!(matches!(&r, Ok(e) if e.lengths.len() >= 3), "accepted");
    kani::cover!(r.is_err() && bits.n >= 3 + 4 + 4, "rejected after reading items");
    core::mem::forget(r);
}
macro_rules! k07e { ($name:ident, $hl:expr, $hd:expr) => {
    kproof! {
        #[kani::stub(crate::huffman_helper::calculate_huffman_code_tree, contract_code_tree)]
        #[kani::stub(crate::huffman_helper::decode_symbol, contract_decode_symbol)]
        fn $name() { dyn_header_post($hl, $hd); }
    }
} }
k07e!(k07e_dyn_header_read_post_257_1, 0, 0);
k07e!(k07e_dyn_header_read_post_286_30, 29, 29);
k07e!(k07e_dyn_header_read_post_288_32, 31, 31);
kproof! {
    #[kani::stub(crate::huffman_helper::calculate_huffman_code_tree, contract_code_tree)]
    #[kani::stub(crate::huffman_helper::decode_symbol, contract_decode_symbol)]
    fn k07e_dyn_header_read_post_more() { dyn_header_post_n::<10>(3, 7); }
}

// ---------------------------------------------------------------------------
// K03h: the code lengths a dynamic block's reader AND writer build their codes from (get_literal_distance_lengths)
// equal the RFC 1951 §3.2.7 expansion of the run-length items, split at HLIT: nothing added, nothing re-ordered.
// Structure concrete per shape (so every Vec has a concrete length), code values symbolic.
// ---------------------------------------------------------------------------
fn rfc_expand(items: &[(TreeCodeType, u8)], out: &mut [u8; 330]) -> usize {
    let mut n = 0usize;
    let mut prev = 0u8;
    let mut i = 0;
    while i < items.len() {
        let (t, v) = items[i];
        match t {
            TreeCodeType::Code => { out[n] = v; prev = v; n += 1; }
            TreeCodeType::Repeat => { let mut k = 0; while k < v { out[n] = prev; n += 1; k += 1; } }
            _ => { let mut k = 0; while k < v { out[n] = 0; n += 1; k += 1; } }
        }
        i += 1;
    }
    n
}
fn dyn_lengths_shape(items: &[(TreeCodeType, u8)], hlit: usize, hdist: usize) {
    let mut v: Vec<(TreeCodeType, u8)> = Vec::with_capacity(items.len());
    let mut i = 0;
    while i < items.len() { v.push(items[i]); i += 1; }
    let enc = HuffmanOriginalEncoding { lengths: v, code_lengths: [0; 19], num_literals: hlit, num_dist: hdist, num_code_lengths: 19 };
    let mut exp = [0u8; 330];
    let n = rfc_expand(items, &mut exp);
    assert!(n == hlit + hdist);
    let (lit, dist) = enc.get_literal_distance_lengths();
    assert!(lit.len() == hlit, "literal/length code has a different number of symbols than HLIT");
    assert!(dist.len() == hdist, "distance code has a different number of symbols than HDIST");
    // the first 250 literal lengths come from the two concrete zero runs; compare the symbolic tail and all distances
    let mut i = if hlit >= 257 { 250 } else { 0 };
    while i < hlit { assert!(lit[i] == exp[i], "literal/length code length differs from the RFC 1951 expansion"); i += 1; }
    if hlit >= 257 { assert!(lit[0] == 0 && lit[137] == 0 && lit[138] == 0 && lit[249] == 0); }
    let mut i = 0;
    while i < hdist { assert!(dist[i] == exp[hlit + i], "distance code length differs from the RFC 1951 expansion"); i += 1; }
    core::mem::forget(lit); core::mem::forget(dist); core::mem::forget(enc);
}
kproof! {
    fn k03h_dyn_lengths_expand() {
        let c: [u8; 10] = kani::any();
        let mut i = 0; while i < 10 { kani::assume(c[i] <= 15); i += 1; }
        let r: u8 = kani::any(); kani::assume(r >= 3 && r <= 6);
        let z: u8 = kani::any(); kani::assume(z >= 3 && z <= 10);
        use TreeCodeType::*;
        // shape A: HLIT 257, HDIST 3: two zero runs (138 + 112), 7 explicit lengths 250..=256, three explicit distance lengths
        dyn_lengths_shape(&[(ZeroLong, 138), (ZeroLong, 112), (Code, c[0]), (Code, c[1]), (Code, c[2]), (Code, c[3]), (Code, c[4]), (Code, c[5]), (Code, c[6]),
                            (Code, c[7]), (Code, c[8]), (Code, c[9])], 257, 3);
        kani::cover!(c[7] == 0 && c[8] == 1 && c[9] == 0, "distance code with a single one-bit symbol that is not symbol 0");
        // shape B: a repeat (code 16) that crosses the literal/distance boundary, then a short zero run: HLIT 257, HDIST r - 1 + z
        if r == 4 && z == 3 {
            dyn_lengths_shape(&[(ZeroLong, 138), (ZeroLong, 112), (Code, c[0]), (Code, c[1]), (Code, c[2]), (Code, c[3]), (Code, c[4]), (Code, c[5]), (Repeat, 4), (ZeroShort, 3)], 257, 6);
        }
        if r == 6 && z == 10 {
            dyn_lengths_shape(&[(ZeroLong, 138), (ZeroLong, 112), (Code, c[0]), (Code, c[1]), (Code, c[2]), (Code, c[3]), (Code, c[4]), (Code, c[5]), (Repeat, 6), (ZeroShort, 10)], 257, 15);
        }
        kani::cover!(r == 6 && z == 10, "long shape");
    }
}

kproof! {
    /// K03h-small: the same lemma with the split point at 4 (get_literal_distance_lengths does not depend on HLIT >= 257):
    /// a harness small enough for its counterexamples to be replayed natively
    fn k03h_dyn_lengths_expand_small() {
        let c: [u8; 7] = kani::any();
        let mut i = 0; while i < 7 { kani::assume(c[i] <= 15); i += 1; }
        use TreeCodeType::*;
        dyn_lengths_shape(&[(Code, c[0]), (Code, c[1]), (Code, c[2]), (Code, c[3]), (Code, c[4]), (Code, c[5]), (Code, c[6])], 4, 3);
        dyn_lengths_shape(&[(Code, c[0]), (Code, c[1]), (Code, c[2]), (Repeat, 4), (ZeroShort, 3), (Code, c[3])], 4, 7);
        kani::cover!(c[4] == 0 && c[5] == 1 && c[6] == 0, "distance code with a single one-bit symbol that is not symbol 0");
    }
}
