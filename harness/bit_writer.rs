//! child of `bit_writer`: one step of the bit writer from an arbitrary valid state (C07, C02, C05)
#![allow(unused_imports, dead_code)]
use super::*;
use crate::verif_common::*;

kproof! {
    /// K07s (flush_whole_bytes replaced by its non-reallocating equivalent; the real one is k07t):
    /// BitWriter::write from ANY valid state (0..=7 pending bits) with any value of 0..=25 bits (the
    /// longest single write in the deflate writer is a 15-bit code; 13 extra bits) appends exactly those bits,
    /// LSB first, emits every completed byte and keeps fewer than 8 bits pending.  BitWriter::pad then fills
    /// the last byte with the low bits of the padding pattern.
    #[kani::stub(crate::bit_writer::BitWriter::flush_whole_bytes, crate::verif_common::stub_flush_whole_bytes)]
    fn k07s_bitwriter_step() {
        let bits_in: u32 = kani::any();
        kani::assume(bits_in <= 7);
        let pending: u32 = kani::any();
        kani::assume(pending < (1u32 << bits_in));
        let len: u32 = kani::any();
        kani::assume(len >= 1 && len <= 25);
        let bits: u32 = kani::any();
        kani::assume(bits < (1u32 << len));
        let mut w = BitWriter { bit_buffer: pending, bits_in };
        let mut out: Vec<u8> = Vec::with_capacity(8);
        w.write(bits, len, &mut out);
        let stream: u64 = pending as u64 | ((bits as u64) << bits_in);
        let total = bits_in + len;
        assert!(out.len() as u32 == total / 8, "wrong number of bytes emitted");
        let mut i = 0;
        while i < 4 { if i < out.len() { assert!(out[i] == ((stream >> (8 * i)) & 0xff) as u8, "emitted byte differs from the bit string"); } i += 1; }
        assert!(w.bits_in == total % 8 && w.bits_in < 8);
        assert!(w.bit_buffer == (stream >> (8 * (total / 8))) as u32, "pending bits corrupted");
        // padding
        let fill: u8 = kani::any();
        let n0 = out.len();
        let left = w.bits_in;
        let pend = w.bit_buffer;
        w.pad(fill, &mut out);
        assert!(w.bits_in == 0);
        if left == 0 { assert!(out.len() == n0); } else {
            assert!(out.len() == n0 + 1);
            let padbits = (fill as u32) & ((1u32 << (8 - left)) - 1);
            assert!(out[n0] as u32 == (pend | (padbits << left)), "padding bits are not the low bits of the pattern");
        }
        kani::cover!(bits_in == 7 && len == 25, "four bytes completed by one write");
        kani::cover!(left == 3 && fill == 0b10101, "non-trivial padding pattern");
        core::mem::forget(out);
    }
}

fn flush_at(bits_in: u32) {
    let buf: u32 = kani::any();
    let mut w = BitWriter { bit_buffer: buf, bits_in };
    let mut out: Vec<u8> = Vec::with_capacity(8);
    w.flush_whole_bytes(&mut out);
    assert!(out.len() as u32 == bits_in / 8 && w.bits_in == bits_in % 8);
    let mut i = 0;
    while i < 4 { if i < out.len() { assert!(out[i] == ((buf >> (8 * i)) & 0xff) as u8); } i += 1; }
    assert!(w.bit_buffer == if bits_in >= 32 { 0 } else { buf >> (8 * (bits_in / 8)) });
    core::mem::forget(out);
}
kproof! {
    /// K07t: the real BitWriter::flush_whole_bytes for every pending-bit count 0..=32 (concrete, looped) and any
    /// buffer content: emits the completed bytes in order and keeps the rest
    fn k07t_flush_whole_bytes() {
        let mut n = 0;
        while n <= 32 { flush_at(n); n += 1; }
        kani::cover!(true, "reached");
    }
}
