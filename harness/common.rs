//! Shared harness support, injected into the scratch copy of the crate as
//! `crate::verif_common` (cfg(kani) only).  Nothing here is part of /repo.
#![allow(dead_code, unused_imports, unused_macros)]

use crate::preflate_error::{ExitCode, PreflateError};

// ---------------------------------------------------------------------------
// Standard stubs (see DESIGN.md §1.1).  Error *values* are outside every
// claim; error *occurrence* (Ok / Err / panic) is inside.
// ---------------------------------------------------------------------------

/// `PreflateError::add_context` calls `Location::caller()`, unsupported by Kani.
pub fn stub_add_context(_e: &mut PreflateError) {}
/// the same for the frozen reference crate (C04 harnesses that reach an error path of the reference build)
pub fn stub_ref_add_context(_e: &mut preflate_ref::preflate_error::PreflateError) {}

/// `alloc::fmt::format` — message text is irrelevant to every property.
pub fn stub_format(_args: core::fmt::Arguments<'_>) -> String {
    String::new()
}

/// `From<io::Error> for PreflateError` without formatting / recursive drop glue.
pub fn stub_from_io(e: std::io::Error) -> PreflateError {
    core::mem::forget(e);
    PreflateError::new(ExitCode::OsError, "")
}

/// Wraps a proof harness with the standard stub set.
macro_rules! kproof {
    ($(#[$m:meta])* fn $name:ident() $body:block) => {
        #[kani::proof]
        #[kani::stub(crate::preflate_error::PreflateError::add_context, crate::verif_common::stub_add_context)]
        #[kani::stub(alloc::fmt::format, crate::verif_common::stub_format)]
        #[kani::stub(<crate::preflate_error::PreflateError as std::convert::From<std::io::Error>>::from, crate::verif_common::stub_from_io)]
        $(#[$m])*
        fn $name() $body
    };
}
pub(crate) use kproof;
/// kproof! plus the length-splitting `Vec::push` (stub_vec_push_any)
macro_rules! kproof_vp {
    ($(#[$m:meta])* fn $name:ident() $body:block) => {
        kproof! {
            #[kani::stub(std::vec::Vec::push, crate::verif_common::stub_vec_push_any)]
            #[kani::stub(std::vec::Vec::reserve, crate::verif_common::stub_vec_reserve_concrete)]
            $(#[$m])*
            fn $name() $body
        }
    };
}
pub(crate) use kproof_vp;

/// Stub for `Vec::push` that is equivalent to the real one whenever the capacity suffices (asserted), but CASE-SPLITS on
/// the length so that every element is written at a concrete offset.  After a path merge the length of a Vec is an
/// if-then-else term; the real push then writes a whole element (BlockChunk: 248 bytes) at a symbolic byte offset of
/// the heap object, and CBMC's array encoding of those byte stores is quadratic (k01s_scan_step: > 36 GB).
pub fn stub_vec_push_split<T, A: core::alloc::Allocator>(v: &mut Vec<T, A>, value: T) {
    let len = v.len();
    assert!(len < v.capacity(), "a Vec had to grow: the capacities given by the harness are too small");
    unsafe {
        let base = v.as_mut_ptr();
        match len {
            0 => core::ptr::write(base, value),
            1 => core::ptr::write(base.add(1), value),
            2 => core::ptr::write(base.add(2), value),
            3 => core::ptr::write(base.add(3), value),
            4 => core::ptr::write(base.add(4), value),
            5 => core::ptr::write(base.add(5), value),
            6 => core::ptr::write(base.add(6), value),
            7 => core::ptr::write(base.add(7), value),
            _ => { assert!(false, "stub_vec_push_split: more than 8 elements"); kani::assume(false); core::mem::forget(value); }
        }
        v.set_len(len + 1);
    }
}

/// `Vec::reserve` with a CONCRETE allocation size for small requests: reserve(n) only promises "at least n more", so
/// asking for 16 when n <= 16 is equivalent for every caller that does not read capacity().  A symbolic n (stored block
/// length decoded from the corrections) otherwise creates a heap object of symbolic size, on which CBMC's pointer
/// analysis gave path-dependent spurious "pointer invalid / deallocated" failures (k02e_stored_mirror, DESIGN 6).
pub fn stub_vec_reserve_concrete<T, A: core::alloc::Allocator>(v: &mut Vec<T, A>, additional: usize) {
    if v.capacity() - v.len() >= additional {
        return;
    }
    if additional <= 16 { v.reserve_exact(16); } else { v.reserve_exact(additional); }
}

/// General form of the above: equivalent to `Vec::push` in every state (grows when full), case-splitting on the first 16
/// lengths only.  For code that builds its own Vecs (`Vec::new()` + push) inside the functions under test.
pub fn stub_vec_push_any<T, A: core::alloc::Allocator>(v: &mut Vec<T, A>, value: T) {
    let len = v.len();
    if len == v.capacity() {
        v.reserve(16);
    }
    unsafe {
        let base = v.as_mut_ptr();
        match len {
            0 => core::ptr::write(base, value),
            1 => core::ptr::write(base.add(1), value),
            2 => core::ptr::write(base.add(2), value),
            3 => core::ptr::write(base.add(3), value),
            4 => core::ptr::write(base.add(4), value),
            5 => core::ptr::write(base.add(5), value),
            6 => core::ptr::write(base.add(6), value),
            7 => core::ptr::write(base.add(7), value),
            8 => core::ptr::write(base.add(8), value),
            9 => core::ptr::write(base.add(9), value),
            10 => core::ptr::write(base.add(10), value),
            11 => core::ptr::write(base.add(11), value),
            12 => core::ptr::write(base.add(12), value),
            13 => core::ptr::write(base.add(13), value),
            14 => core::ptr::write(base.add(14), value),
            15 => core::ptr::write(base.add(15), value),
            _ => core::ptr::write(base.add(len), value),
        }
        v.set_len(len + 1);
    }
}

/// Stub for `alloc::alloc::realloc` in harnesses that give every growing `Vec` enough capacity up front: growth is
/// ASSERTED unreachable (a harness whose capacities are too small fails, it is not silently cut), which removes the
/// "every push may reallocate" forks that dominate CBMC's symbolic execution (DESIGN 1.2, cause 1).
pub unsafe fn stub_realloc_unreachable(_ptr: *mut u8, _layout: core::alloc::Layout, _new_size: usize) -> *mut u8 {
    assert!(false, "a Vec had to grow: the capacities given by the harness are too small");
    kani::assume(false);
    core::ptr::null_mut()
}

kproof! {
    /// base-build anchor; also a sanity witness that the stub set resolves.
    fn k00_smoke() {
        let x: u8 = kani::any();
        kani::cover!(x == 7, "smoke");
        assert!(crate::bit_helper::bit_length(x as u32) <= 8);
    }
}

// ---------------------------------------------------------------------------
// Recording codec: a transparent PredictionEncoder/PredictionDecoder over fixed
// arrays.  The decoder side asserts that it is asked for the *same kind and
// context* as was written (a decoder that asks differently would silently
// desynchronise the real arithmetic coder).  encode_value keeps only the
// declared number of low bits, exactly like the real write_bypass.
// ---------------------------------------------------------------------------
use crate::statistical_codec::{CodecCorrection, CodecMisprediction, PredictionDecoder, PredictionEncoder};

pub const REC_N: usize = 48;
pub const K_VAL: u8 = 1;
pub const K_COR: u8 = 2;
pub const K_MIS: u8 = 3;

pub struct Rec {
    pub kind: [u8; REC_N],
    pub ctx: [u8; REC_N],
    pub val: [u32; REC_N],
    pub n: usize,
    pub r: usize,
}

impl Rec {
    pub fn new() -> Self {
        Rec { kind: [0; REC_N], ctx: [0; REC_N], val: [0; REC_N], n: 0, r: 0 }
    }
    fn push(&mut self, k: u8, c: u8, v: u32) {
        assert!(self.n < REC_N, "Rec capacity exceeded (harness bound)");
        self.kind[self.n] = k;
        self.ctx[self.n] = c;
        self.val[self.n] = v;
        self.n += 1;
    }
    fn pop(&mut self, k: u8, c: u8) -> u32 {
        assert!(self.r < self.n, "decoder reads past what the encoder wrote");
        assert!(self.kind[self.r] == k, "decoder asks for a different operation kind than was encoded");
        assert!(self.ctx[self.r] == c, "decoder asks with a different context / width than was encoded");
        let v = self.val[self.r];
        self.r += 1;
        v
    }
    pub fn fully_consumed(&self) -> bool {
        self.r == self.n
    }
    pub fn same_ops(&self, o: &Rec) -> bool {
        if self.n != o.n { return false; }
        let mut i = 0;
        while i < REC_N {
            if i < self.n && (self.kind[i] != o.kind[i] || self.ctx[i] != o.ctx[i] || self.val[i] != o.val[i]) { return false; }
            i += 1;
        }
        true
    }
}

impl PredictionEncoder for Rec {
    fn encode_correction(&mut self, action: CodecCorrection, value: u32) {
        self.push(K_COR, action as u8, value);
    }
    fn encode_misprediction(&mut self, action: CodecMisprediction, value: bool) {
        self.push(K_MIS, action as u8, value as u32);
    }
    fn encode_value(&mut self, value: u16, max_bits: u8) {
        assert!(max_bits >= 1 && max_bits <= 16);
        let m: u32 = if max_bits >= 16 { 0xffff } else { (1u32 << max_bits) - 1 };
        self.push(K_VAL, max_bits, (value as u32) & m);
    }
    fn encode_verify_state(&mut self, _message: &'static str, _checksum: u64) {}
    fn finish(&mut self) {}
}

impl PredictionDecoder for Rec {
    fn decode_value(&mut self, max_bits_orig: u8) -> u16 {
        self.pop(K_VAL, max_bits_orig) as u16
    }
    fn decode_correction(&mut self, correction: CodecCorrection) -> u32 {
        self.pop(K_COR, correction as u8)
    }
    fn decode_misprediction(&mut self, misprediction: CodecMisprediction) -> bool {
        self.pop(K_MIS, misprediction as u8) != 0
    }
    fn decode_verify_state(&mut self, _message: &'static str, _checksum: u64) {}
}

// ---------------------------------------------------------------------------
// estimator_range: the set of parameter vectors estimate_preflate_parameters can
// emit (written from recommend(), the two config tables, estimate_add_policy and
// the no-dictionary constant).  Printed in evidence so a reader can disagree.
// ---------------------------------------------------------------------------
use crate::add_policy_estimator::DictionaryAddPolicy;
use crate::hash_algorithm::HashAlgorithm;
use crate::preflate_parameter_estimator::{PreflateHuffStrategy, PreflateParameters, PreflateStrategy};
use crate::preflate_parse_config::MatchingType;
use crate::token_predictor::TokenPredictorParameters;

pub fn any_hash_algorithm() -> HashAlgorithm {
    let k: u8 = kani::any();
    kani::assume(k >= 1 && k <= 7);
    match k {
        1 => {
            let hash_shift: u32 = kani::any();
            kani::assume(hash_shift <= 15);
            HashAlgorithm::Zlib { hash_mask: kani::any(), hash_shift }
        }
        2 => HashAlgorithm::MiniZFast,
        3 => HashAlgorithm::Libdeflate4,
        4 => HashAlgorithm::Libdeflate4Fast,
        5 => HashAlgorithm::ZlibNG,
        6 => HashAlgorithm::RandomVector,
        _ => HashAlgorithm::Crc32cHash,
    }
}

pub fn any_add_policy() -> DictionaryAddPolicy {
    let k: u8 = kani::any();
    kani::assume(k <= 4);
    let lim: u16 = kani::any();
    // estimate_add_policy keeps the limit within the 8 bits the parameter header carries
    // (discharged on the real function by k02h_add_policy_range)
    kani::assume(lim <= 255);
    match k {
        0 => DictionaryAddPolicy::AddAll,
        1 => DictionaryAddPolicy::AddFirst(lim),
        2 => DictionaryAddPolicy::AddFirstAndLast(lim),
        3 => DictionaryAddPolicy::AddFirstExcept4kBoundary,
        _ => DictionaryAddPolicy::AddFirstWith32KBoundary,
    }
}

/// (matching_type, nice_length) rows of ZLIB_/SLOW_PREFLATE_PARSER_SETTINGS plus recommend()'s default
pub fn any_match_row() -> (MatchingType, u32) {
    let k: u8 = kani::any();
    kani::assume(k <= 9);
    match k {
        0 => (MatchingType::Greedy, 8),
        1 => (MatchingType::Greedy, 16),
        2 => (MatchingType::Greedy, 32),
        3 => (MatchingType::Lazy { good_length: 4, max_lazy: 4 }, 16),
        4 => (MatchingType::Lazy { good_length: 8, max_lazy: 16 }, 32),
        5 => (MatchingType::Lazy { good_length: 8, max_lazy: 16 }, 128),
        6 => (MatchingType::Lazy { good_length: 8, max_lazy: 32 }, 128),
        7 => (MatchingType::Lazy { good_length: 32, max_lazy: 128 }, 258),
        8 => (MatchingType::Lazy { good_length: 32, max_lazy: 258 }, 258),
        _ => (MatchingType::Greedy, 258),
    }
}

/// dictionary-using part of estimator_range
pub fn any_predictor_params() -> TokenPredictorParameters {
    let window_bits: u32 = kani::any();
    kani::assume(window_bits >= 9 && window_bits <= 15);
    let max_chain: u32 = kani::any();
    kani::assume(max_chain >= 1 && max_chain <= 4096);
    let mem_level: u32 = kani::any();
    kani::assume(mem_level >= 1 && mem_level <= 9);
    let min_len: u32 = kani::any();
    // smallest reference length seen (3..=258), or 0 when the Huffman blocks contain no reference at all
    // (stored + literal-only mix); discharged on the real estimator front end by k05d_info_params
    kani::assume((min_len >= 3 && min_len <= 258) || min_len == 0);
    let (matching_type, nice_length) = any_match_row();
    let strategy = if kani::any() { PreflateStrategy::Default } else { PreflateStrategy::RleOnly };
    let max_dist_3_matches: u16 = kani::any();
    kani::assume(max_dist_3_matches <= 32768);
    TokenPredictorParameters {
        matches_to_start_detected: kani::any(),
        very_far_matches_detected: kani::any(),
        window_bits,
        strategy,
        nice_length,
        add_policy: any_add_policy(),
        max_token_count: ((1u32 << (6 + mem_level)) - 1) as u16,
        zlib_compatible: kani::any(),
        max_dist_3_matches,
        matching_type,
        max_chain,
        min_len,
        hash_algorithm: any_hash_algorithm(),
    }
}

pub fn any_huff_strategy() -> PreflateHuffStrategy {
    let k: u8 = kani::any();
    kani::assume(k <= 2);
    match k { 0 => PreflateHuffStrategy::Dynamic, 1 => PreflateHuffStrategy::Mixed, _ => PreflateHuffStrategy::Static }
}

/// the constant returned for Store / HuffOnly streams
pub fn nodict_predictor_params(strategy: PreflateStrategy) -> TokenPredictorParameters {
    TokenPredictorParameters {
        window_bits: 0,
        very_far_matches_detected: false,
        matches_to_start_detected: false,
        strategy,
        nice_length: 0,
        add_policy: DictionaryAddPolicy::AddAll,
        max_token_count: 16386,
        zlib_compatible: true,
        max_dist_3_matches: 0,
        matching_type: MatchingType::Greedy,
        max_chain: 0,
        min_len: 0,
        hash_algorithm: HashAlgorithm::None,
    }
}

// ---------------------------------------------------------------------------
// Input seams
// ---------------------------------------------------------------------------
use std::io::{Read, Write};

/// Budgeted symbolic byte source: hands out `len` symbolic bytes one at a time and
/// `assume(false)`s beyond — i.e. "all streams whose parse finishes within `len` bytes".
pub struct Src<const N: usize> {
    pub data: [u8; N],
    pub pos: usize,
    pub len: usize,
}
impl<const N: usize> Src<N> {
    pub fn any() -> Self {
        Src { data: kani::any(), pos: 0, len: N }
    }
}
impl<const N: usize> Read for Src<N> {
    fn read(&mut self, buf: &mut [u8]) -> std::io::Result<usize> {
        if buf.is_empty() {
            return Ok(0);
        }
        kani::assume(self.pos < self.len);
        buf[0] = self.data[self.pos];
        self.pos += 1;
        Ok(1)
    }
    /// overrides the provided method: no default_read_exact loop / ErrorKind::Interrupted path
    fn read_exact(&mut self, buf: &mut [u8]) -> std::io::Result<()> {
        let mut i = 0;
        while i < buf.len() {
            kani::assume(self.pos < self.len);
            buf[i] = self.data[self.pos];
            self.pos += 1;
            i += 1;
        }
        Ok(())
    }
}

/// Same, but reports end of file (Ok(0)) after `len` bytes: truncated inputs.
pub struct SrcEof<const N: usize> {
    pub data: [u8; N],
    pub pos: usize,
    pub len: usize,
}
impl<const N: usize> Read for SrcEof<N> {
    fn read(&mut self, buf: &mut [u8]) -> std::io::Result<usize> {
        if buf.is_empty() || self.pos >= self.len {
            return Ok(0);
        }
        buf[0] = self.data[self.pos];
        self.pos += 1;
        Ok(1)
    }
    /// overrides the provided method (no default_read_exact loop); UnexpectedEof at the end like std
    fn read_exact(&mut self, buf: &mut [u8]) -> std::io::Result<()> {
        if self.pos > self.len || buf.len() > self.len - self.pos {
            if self.pos < self.len { self.pos = self.len; }
            return Err(std::io::Error::from(std::io::ErrorKind::UnexpectedEof));
        }
        let mut i = 0;
        while i < buf.len() {
            buf[i] = self.data[self.pos];
            self.pos += 1;
            i += 1;
        }
        Ok(())
    }
}

/// Seek with Cursor's semantics (seeking past the end is allowed), so that harnesses keep compiling —
/// and keep their position assertions — if a parser starts to skip fields by seeking
impl<const N: usize> std::io::Seek for SrcEof<N> {
    fn seek(&mut self, pos: std::io::SeekFrom) -> std::io::Result<u64> {
        let np: i64 = match pos {
            std::io::SeekFrom::Start(p) => p as i64,
            std::io::SeekFrom::Current(d) => self.pos as i64 + d,
            std::io::SeekFrom::End(d) => self.len as i64 + d,
        };
        if np < 0 {
            return Err(std::io::Error::from(std::io::ErrorKind::InvalidInput));
        }
        self.pos = np as usize;
        Ok(np as u64)
    }
}

/// Recording symbolic bit source for `ReadBits` consumers: every `get(n)` returns fresh
/// symbolic bits and records (value, n) so that the writer's output can be compared
/// bit for bit.  `budget` bounds the number of calls (assume(false) beyond).
pub const BITS_N: usize = 96;
pub struct Bits {
    pub val: [u32; BITS_N],
    pub cnt: [u8; BITS_N],
    pub n: usize,
    pub budget: usize,
}
impl Bits {
    pub fn new(budget: usize) -> Self {
        assert!(budget <= BITS_N);
        Bits { val: [0; BITS_N], cnt: [0; BITS_N], n: 0, budget }
    }
}
impl crate::bit_reader::ReadBits for Bits {
    fn get(&mut self, cbit: u32) -> std::io::Result<u32> {
        kani::assume(self.n < self.budget);
        assert!(cbit <= 32);
        let v: u32 = kani::any();
        let v = if cbit == 32 { v } else { v & ((1u32 << cbit) - 1) };
        self.val[self.n] = v;
        self.cnt[self.n] = cbit as u8;
        self.n += 1;
        Ok(v)
    }
}

/// bit-serial view of a byte slice (LSB first), used by reference decoders and comparisons
pub fn bit_at(data: &[u8], bitpos: usize) -> u32 {
    ((data[bitpos >> 3] >> (bitpos & 7)) & 1) as u32
}

// ---------------------------------------------------------------------------
// Independent reference: RFC 1951 tables and a bit-serial decoder for stored and
// fixed-Huffman blocks, typed in from the RFC text (NOT derived from the crate).
// Validated natively against zlib's inflate by native/validate (setup_cmd).
// ---------------------------------------------------------------------------
pub const RFC_LEN_BASE: [u16; 29] = [3, 4, 5, 6, 7, 8, 9, 10, 11, 13, 15, 17, 19, 23, 27, 31, 35, 43, 51, 59, 67, 83, 99, 115, 131, 163, 195, 227, 258];
pub const RFC_LEN_EXTRA: [u8; 29] = [0, 0, 0, 0, 0, 0, 0, 0, 1, 1, 1, 1, 2, 2, 2, 2, 3, 3, 3, 3, 4, 4, 4, 4, 5, 5, 5, 5, 0];
pub const RFC_DIST_BASE: [u16; 30] = [1, 2, 3, 4, 5, 7, 9, 13, 17, 25, 33, 49, 65, 97, 129, 193, 257, 385, 513, 769, 1025, 1537, 2049, 3073, 4097, 6145, 8193, 12289, 16385, 24577];
pub const RFC_DIST_EXTRA: [u8; 30] = [0, 0, 0, 0, 1, 1, 2, 2, 3, 3, 4, 4, 5, 5, 6, 6, 7, 7, 8, 8, 9, 9, 10, 10, 11, 11, 12, 12, 13, 13];

pub struct RefBits<'a> {
    pub data: &'a [u8],
    pub pos: usize,
    pub overrun: bool,
}
impl<'a> RefBits<'a> {
    pub fn new(data: &'a [u8], pos: usize) -> Self {
        RefBits { data, pos, overrun: false }
    }
    pub fn bit(&mut self) -> u32 {
        if self.pos >= self.data.len() * 8 {
            self.overrun = true;
            return 0;
        }
        let b = bit_at(self.data, self.pos);
        self.pos += 1;
        b
    }
    /// n-bit integer, least significant bit first (RFC 1951 §3.1.1 data elements)
    pub fn bits(&mut self, n: u32) -> u32 {
        let mut v = 0;
        let mut i = 0;
        while i < n {
            v |= self.bit() << i;
            i += 1;
        }
        v
    }
    /// Huffman code bits arrive most significant bit first
    pub fn code_bits(&mut self, acc: u32, n: u32) -> u32 {
        let mut v = acc;
        let mut i = 0;
        while i < n {
            v = (v << 1) | self.bit();
            i += 1;
        }
        v
    }
    /// fixed literal/length code, RFC 1951 §3.2.6
    pub fn fixed_litlen(&mut self) -> u32 {
        let c7 = self.code_bits(0, 7);
        if c7 <= 0b0010111 {
            return 256 + c7;
        }
        let c8 = self.code_bits(c7, 1);
        if c8 >= 0b00110000 && c8 <= 0b10111111 {
            return c8 - 0b00110000;
        }
        if c8 >= 0b11000000 && c8 <= 0b11000111 {
            return 280 + (c8 - 0b11000000);
        }
        let c9 = self.code_bits(c8, 1);
        144 + (c9 - 0b110010000)
    }
}

#[derive(Copy, Clone, PartialEq, Eq)]
pub struct RefTok {
    pub is_ref: bool,
    pub lit: u8,
    pub len: u32,
    pub dist: u32,
    pub lcode: u32,
}

pub const REF_MAXTOK: usize = 8;
pub struct RefBlock {
    pub toks: [RefTok; REF_MAXTOK],
    pub n: usize,
    pub ok: bool,       // block is well-formed per RFC (ends with EOB inside the data, codes valid)
    pub too_many: bool, // more than REF_MAXTOK tokens
    pub end_bit: usize, // bit position just after EOB
}

/// decode one fixed-Huffman block body starting at bit `start` (just after the 3 header bits).
/// `window` = number of bytes already produced (distance limit).
pub fn ref_fixed_block(data: &[u8], start: usize, window: usize) -> RefBlock {
    let mut rb = RefBits::new(data, start);
    let z = RefTok { is_ref: false, lit: 0, len: 0, dist: 0, lcode: 0 };
    let mut out = RefBlock { toks: [z; REF_MAXTOK], n: 0, ok: false, too_many: false, end_bit: 0 };
    let mut produced = window;
    let mut i = 0;
    while i <= REF_MAXTOK {
        let sym = rb.fixed_litlen();
        if rb.overrun { return out; }
        if sym == 256 {
            out.ok = true;
            out.end_bit = rb.pos;
            return out;
        }
        if i == REF_MAXTOK { out.too_many = true; return out; }
        if sym < 256 {
            out.toks[i] = RefTok { is_ref: false, lit: sym as u8, len: 1, dist: 0, lcode: 0 };
            produced += 1;
        } else {
            let lcode = sym - 257;
            if lcode >= 29 { return out; }
            let len = RFC_LEN_BASE[lcode as usize] as u32 + rb.bits(RFC_LEN_EXTRA[lcode as usize] as u32);
            let dcode = rb.code_bits(0, 5);
            if dcode >= 30 { return out; }
            let dist = RFC_DIST_BASE[dcode as usize] as u32 + rb.bits(RFC_DIST_EXTRA[dcode as usize] as u32);
            if rb.overrun { return out; }
            if dist as usize > produced { return out; }
            out.toks[i] = RefTok { is_ref: true, lit: 0, len, dist, lcode };
            produced += len as usize;
        }
        out.n = i + 1;
        i += 1;
    }
    out
}


/// Stand-in for BitWriter::flush_whole_bytes that appends WITHOUT reallocation (capacity is asserted): the
/// same three statements per byte as the real function, with `Vec::push` replaced by a write into the spare
/// capacity.  With a symbolic number of pending bits every real `push` site may reallocate, and CBMC's
/// pointer value sets then explode (measured: a one-token writer harness did not finish in 16 min; 111
/// unwindings of this loop).  The real function runs in k07a_stored_rewrite_* and k02f_block_structure.
pub fn stub_flush_whole_bytes(bw: &mut crate::bit_writer::BitWriter, data_buffer: &mut Vec<u8>) {
    while bw.bits_in >= 8 {
        let l = data_buffer.len();
        assert!(l < data_buffer.capacity(), "harness bound: output capacity");
        unsafe {
            *data_buffer.as_mut_ptr().add(l) = bw.bit_buffer as u8;
            data_buffer.set_len(l + 1);
        }
        bw.bit_buffer >>= 8;
        bw.bits_in -= 8;
    }
}

/// TokenPredictorParameters -> the flat vector understood by verif_export::from_flat in both builds (hash kind 6: the model hash)
pub fn flat_predictor_params(p: &TokenPredictorParameters) -> [u32; 19] {
    let (lazy, gl, ml) = match p.matching_type { MatchingType::Greedy => (0u32, 0u32, 0u32), MatchingType::Lazy { good_length, max_lazy } => (1, good_length as u32, max_lazy as u32) };
    let (pk, pl) = match p.add_policy {
        DictionaryAddPolicy::AddAll => (0u32, 0u32), DictionaryAddPolicy::AddFirst(v) => (1, v as u32),
        DictionaryAddPolicy::AddFirstAndLast(v) => (2, v as u32), DictionaryAddPolicy::AddFirstExcept4kBoundary => (3, 0),
        DictionaryAddPolicy::AddFirstWith32KBoundary => (4, 0),
    };
    [0, if p.strategy == PreflateStrategy::Default { 0 } else { 1 }, p.window_bits, p.nice_length, pk, pl, p.max_token_count as u32,
     p.zlib_compatible as u32, p.max_dist_3_matches as u32, lazy, gl, ml, p.max_chain, p.min_len, 6, 0, 0, p.very_far_matches_detected as u32, p.matches_to_start_detected as u32]
}
