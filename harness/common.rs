//! Shared harness support, injected into the scratch copy of the crate as
//! `crate::verif_common` (cfg(kani) only).  Nothing here is part of /repo.
#![allow(dead_code, unused_imports, unused_macros)]

use crate::preflate_error::{ExitCode, PreflateError};

// ---------------------------------------------------------------------------
// Standard stubs (see DESIGN.md §1.1).  Error *values* are outside every
// claim; error *occurrence* (Ok / Err / panic) is inside.
// ---------------------------------------------------------------------------

/// `PreflateError::add_context` calls `Location::caller()`, unsupported by Kani.
pub fn stub_add_context(_e: &mut PreflateError) {}

/// `alloc::fmt::format` — message text is irrelevant to every property.
pub fn stub_format(_args: core::fmt::Arguments<'_>) -> String {
    String::new()
}

/// `From<io::Error> for PreflateError` without formatting / recursive drop glue.
pub fn stub_from_io(e: std::io::Error) -> PreflateError {
    core::mem::forget(e);
    PreflateError::new(ExitCode::OsError, "")
}

/// Wraps a proof harness with the standard stub set.
macro_rules! kproof {
    ($(#[$m:meta])* fn $name:ident() $body:block) => {
        #[kani::proof]
        #[kani::stub(crate::preflate_error::PreflateError::add_context, crate::verif_common::stub_add_context)]
        #[kani::stub(alloc::fmt::format, crate::verif_common::stub_format)]
        #[kani::stub(<crate::preflate_error::PreflateError as std::convert::From<std::io::Error>>::from, crate::verif_common::stub_from_io)]
        $(#[$m])*
        fn $name() $body
    };
}
pub(crate) use kproof;

kproof! {
    /// base-build anchor; also a sanity witness that the stub set resolves.
    fn k00_smoke() {
        let x: u8 = kani::any();
        kani::cover!(x == 7, "smoke");
        assert!(crate::bit_helper::bit_length(x as u32) <= 8);
    }
}

// ---------------------------------------------------------------------------
// Recording codec: a transparent PredictionEncoder/PredictionDecoder over fixed
// arrays.  The decoder side asserts that it is asked for the *same kind and
// context* as was written (a decoder that asks differently would silently
// desynchronise the real arithmetic coder).  encode_value keeps only the
// declared number of low bits, exactly like the real write_bypass.
// ---------------------------------------------------------------------------
use crate::statistical_codec::{CodecCorrection, CodecMisprediction, PredictionDecoder, PredictionEncoder};

pub const REC_N: usize = 48;
pub const K_VAL: u8 = 1;
pub const K_COR: u8 = 2;
pub const K_MIS: u8 = 3;

pub struct Rec {
    pub kind: [u8; REC_N],
    pub ctx: [u8; REC_N],
    pub val: [u32; REC_N],
    pub n: usize,
    pub r: usize,
}

impl Rec {
    pub fn new() -> Self {
        Rec { kind: [0; REC_N], ctx: [0; REC_N], val: [0; REC_N], n: 0, r: 0 }
    }
    fn push(&mut self, k: u8, c: u8, v: u32) {
        assert!(self.n < REC_N, "Rec capacity exceeded (harness bound)");
        self.kind[self.n] = k;
        self.ctx[self.n] = c;
        self.val[self.n] = v;
        self.n += 1;
    }
    fn pop(&mut self, k: u8, c: u8) -> u32 {
        assert!(self.r < self.n, "decoder reads past what the encoder wrote");
        assert!(self.kind[self.r] == k, "decoder asks for a different operation kind than was encoded");
        assert!(self.ctx[self.r] == c, "decoder asks with a different context / width than was encoded");
        let v = self.val[self.r];
        self.r += 1;
        v
    }
    pub fn fully_consumed(&self) -> bool {
        self.r == self.n
    }
    pub fn same_ops(&self, o: &Rec) -> bool {
        if self.n != o.n { return false; }
        let mut i = 0;
        while i < REC_N {
            if i < self.n && (self.kind[i] != o.kind[i] || self.ctx[i] != o.ctx[i] || self.val[i] != o.val[i]) { return false; }
            i += 1;
        }
        true
    }
}

impl PredictionEncoder for Rec {
    fn encode_correction(&mut self, action: CodecCorrection, value: u32) {
        self.push(K_COR, action as u8, value);
    }
    fn encode_misprediction(&mut self, action: CodecMisprediction, value: bool) {
        self.push(K_MIS, action as u8, value as u32);
    }
    fn encode_value(&mut self, value: u16, max_bits: u8) {
        assert!(max_bits >= 1 && max_bits <= 16);
        let m: u32 = if max_bits >= 16 { 0xffff } else { (1u32 << max_bits) - 1 };
        self.push(K_VAL, max_bits, (value as u32) & m);
    }
    fn encode_verify_state(&mut self, _message: &'static str, _checksum: u64) {}
    fn finish(&mut self) {}
}

impl PredictionDecoder for Rec {
    fn decode_value(&mut self, max_bits_orig: u8) -> u16 {
        self.pop(K_VAL, max_bits_orig) as u16
    }
    fn decode_correction(&mut self, correction: CodecCorrection) -> u32 {
        self.pop(K_COR, correction as u8)
    }
    fn decode_misprediction(&mut self, misprediction: CodecMisprediction) -> bool {
        self.pop(K_MIS, misprediction as u8) != 0
    }
    fn decode_verify_state(&mut self, _message: &'static str, _checksum: u64) {}
}

// ---------------------------------------------------------------------------
// estimator_range: the set of parameter vectors estimate_preflate_parameters can
// emit (written from recommend(), the two config tables, estimate_add_policy and
// the no-dictionary constant).  Printed in evidence so a reader can disagree.
// ---------------------------------------------------------------------------
use crate::add_policy_estimator::DictionaryAddPolicy;
use crate::hash_algorithm::HashAlgorithm;
use crate::preflate_parameter_estimator::{PreflateHuffStrategy, PreflateParameters, PreflateStrategy};
use crate::preflate_parse_config::MatchingType;
use crate::token_predictor::TokenPredictorParameters;

pub fn any_hash_algorithm() -> HashAlgorithm {
    let k: u8 = kani::any();
    kani::assume(k >= 1 && k <= 7);
    match k {
        1 => {
            let hash_shift: u32 = kani::any();
            kani::assume(hash_shift <= 15);
            HashAlgorithm::Zlib { hash_mask: kani::any(), hash_shift }
        }
        2 => HashAlgorithm::MiniZFast,
        3 => HashAlgorithm::Libdeflate4,
        4 => HashAlgorithm::Libdeflate4Fast,
        5 => HashAlgorithm::ZlibNG,
        6 => HashAlgorithm::RandomVector,
        _ => HashAlgorithm::Crc32cHash,
    }
}

pub fn any_add_policy() -> DictionaryAddPolicy {
    let k: u8 = kani::any();
    kani::assume(k <= 4);
    let lim: u16 = kani::any();
    // estimate_add_policy: AddFirst(max_length) with max_length < 258;
    // AddFirstAndLast(max_length_last_add) with max_length_last_add < max_length <= 258
    kani::assume(lim <= 257);
    match k {
        0 => DictionaryAddPolicy::AddAll,
        1 => DictionaryAddPolicy::AddFirst(lim),
        2 => DictionaryAddPolicy::AddFirstAndLast(lim),
        3 => DictionaryAddPolicy::AddFirstExcept4kBoundary,
        _ => DictionaryAddPolicy::AddFirstWith32KBoundary,
    }
}

/// (matching_type, nice_length) rows of ZLIB_/SLOW_PREFLATE_PARSER_SETTINGS plus recommend()'s default
pub fn any_match_row() -> (MatchingType, u32) {
    let k: u8 = kani::any();
    kani::assume(k <= 9);
    match k {
        0 => (MatchingType::Greedy, 8),
        1 => (MatchingType::Greedy, 16),
        2 => (MatchingType::Greedy, 32),
        3 => (MatchingType::Lazy { good_length: 4, max_lazy: 4 }, 16),
        4 => (MatchingType::Lazy { good_length: 8, max_lazy: 16 }, 32),
        5 => (MatchingType::Lazy { good_length: 8, max_lazy: 16 }, 128),
        6 => (MatchingType::Lazy { good_length: 8, max_lazy: 32 }, 128),
        7 => (MatchingType::Lazy { good_length: 32, max_lazy: 128 }, 258),
        8 => (MatchingType::Lazy { good_length: 32, max_lazy: 258 }, 258),
        _ => (MatchingType::Greedy, 258),
    }
}

/// dictionary-using part of estimator_range
pub fn any_predictor_params() -> TokenPredictorParameters {
    let window_bits: u32 = kani::any();
    kani::assume(window_bits >= 9 && window_bits <= 15);
    let max_chain: u32 = kani::any();
    kani::assume(max_chain >= 1 && max_chain <= 4096);
    let mem_level: u32 = kani::any();
    kani::assume(mem_level >= 1 && mem_level <= 9);
    let min_len: u32 = kani::any();
    // info.min_len: smallest reference length seen (3..=258); u32::MAX when the
    // Huffman blocks contain no reference at all (stored + literal-only mix)
    kani::assume((min_len >= 3 && min_len <= 258) || min_len == u32::MAX);
    let (matching_type, nice_length) = any_match_row();
    let strategy = if kani::any() { PreflateStrategy::Default } else { PreflateStrategy::RleOnly };
    let max_dist_3_matches: u16 = kani::any();
    kani::assume(max_dist_3_matches <= 32768);
    TokenPredictorParameters {
        matches_to_start_detected: kani::any(),
        very_far_matches_detected: kani::any(),
        window_bits,
        strategy,
        nice_length,
        add_policy: any_add_policy(),
        max_token_count: ((1u32 << (6 + mem_level)) - 1) as u16,
        zlib_compatible: kani::any(),
        max_dist_3_matches,
        matching_type,
        max_chain,
        min_len,
        hash_algorithm: any_hash_algorithm(),
    }
}

pub fn any_huff_strategy() -> PreflateHuffStrategy {
    let k: u8 = kani::any();
    kani::assume(k <= 2);
    match k { 0 => PreflateHuffStrategy::Dynamic, 1 => PreflateHuffStrategy::Mixed, _ => PreflateHuffStrategy::Static }
}

/// the constant returned for Store / HuffOnly streams
pub fn nodict_predictor_params(strategy: PreflateStrategy) -> TokenPredictorParameters {
    TokenPredictorParameters {
        window_bits: 0,
        very_far_matches_detected: false,
        matches_to_start_detected: false,
        strategy,
        nice_length: 0,
        add_policy: DictionaryAddPolicy::AddAll,
        max_token_count: 16386,
        zlib_compatible: true,
        max_dist_3_matches: 0,
        matching_type: MatchingType::Greedy,
        max_chain: 0,
        min_len: 0,
        hash_algorithm: HashAlgorithm::None,
    }
}

// ---------------------------------------------------------------------------
// Input seams
// ---------------------------------------------------------------------------
use std::io::{Read, Write};

/// Budgeted symbolic byte source: hands out `len` symbolic bytes one at a time and
/// `assume(false)`s beyond — i.e. "all streams whose parse finishes within `len` bytes".
pub struct Src<const N: usize> {
    pub data: [u8; N],
    pub pos: usize,
    pub len: usize,
}
impl<const N: usize> Src<N> {
    pub fn any() -> Self {
        Src { data: kani::any(), pos: 0, len: N }
    }
}
impl<const N: usize> Read for Src<N> {
    fn read(&mut self, buf: &mut [u8]) -> std::io::Result<usize> {
        if buf.is_empty() {
            return Ok(0);
        }
        kani::assume(self.pos < self.len);
        buf[0] = self.data[self.pos];
        self.pos += 1;
        Ok(1)
    }
}

/// Same, but reports end of file (Ok(0)) after `len` bytes: truncated inputs.
pub struct SrcEof<const N: usize> {
    pub data: [u8; N],
    pub pos: usize,
    pub len: usize,
}
impl<const N: usize> Read for SrcEof<N> {
    fn read(&mut self, buf: &mut [u8]) -> std::io::Result<usize> {
        if buf.is_empty() || self.pos >= self.len {
            return Ok(0);
        }
        buf[0] = self.data[self.pos];
        self.pos += 1;
        Ok(1)
    }
}

/// Recording symbolic bit source for `ReadBits` consumers: every `get(n)` returns fresh
/// symbolic bits and records (value, n) so that the writer's output can be compared
/// bit for bit.  `budget` bounds the number of calls (assume(false) beyond).
pub const BITS_N: usize = 96;
pub struct Bits {
    pub val: [u32; BITS_N],
    pub cnt: [u8; BITS_N],
    pub n: usize,
    pub budget: usize,
}
impl Bits {
    pub fn new(budget: usize) -> Self {
        assert!(budget <= BITS_N);
        Bits { val: [0; BITS_N], cnt: [0; BITS_N], n: 0, budget }
    }
}
impl crate::bit_reader::ReadBits for Bits {
    fn get(&mut self, cbit: u32) -> std::io::Result<u32> {
        kani::assume(self.n < self.budget);
        assert!(cbit <= 32);
        let v: u32 = kani::any();
        let v = if cbit == 32 { v } else { v & ((1u32 << cbit) - 1) };
        self.val[self.n] = v;
        self.cnt[self.n] = cbit as u8;
        self.n += 1;
        Ok(v)
    }
}

/// bit-serial view of a byte slice (LSB first), used by reference decoders and comparisons
pub fn bit_at(data: &[u8], bitpos: usize) -> u32 {
    ((data[bitpos >> 3] >> (bitpos & 7)) & 1) as u32
}
