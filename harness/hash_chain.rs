//! child of `hash_chain`: position arithmetic of the REAL hash chains (threshold / reshift bookkeeping,
//! u16 internal positions), one inductive step from an arbitrary valid state (C05).
//! The 2 x 65536-entry tables themselves are out of reach (DESIGN §1.1): the table is an arbitrary
//! (uninitialised = nondeterministic) heap object, `update_chain` and `HashTable::reshift` are no-op stubs.
#![allow(unused_imports, dead_code)]
use super::*;
use crate::hash_algorithm::ZlibRotatingHash;
use crate::verif_common::*;

pub fn stub_update_chain<H: HashImplementation>(_t: &mut HashTable, _hash: H, _chars: &[u8], _pos: InternalPosition, _length: u32) {}
pub fn stub_table_reshift<const DELTA: usize>(_t: &mut HashTable) {}

const TEXT: usize = 0x7e00 * 2 + 0x10000 + 600;

/// entry invariant E(pos, total_shift): the position is representable with room for the lazy lookup.
/// E is inductive (asserted below) and holds initially (pos 0, total_shift -8).
fn entry_ok(pos: u32, ts: i32) -> bool {
    let rel = pos as i64 - ts as i64;
    rel >= 8 && rel <= 0xffff - 1
}

kproof! {
    /// K05g: from any state satisfying E, HashChainNormalize::update_hash(pos, length <= 258) followed by
    /// iterate at the next position with offset 0 or 1 never overflows the u16 internal position
    /// (InternalPosition::from_absolute unwrap, dist subtraction), and E holds again afterwards.
    #[kani::stub(crate::hash_chain::HashTable::update_chain, stub_update_chain)]
    #[kani::stub(crate::hash_chain::HashTable::reshift, stub_table_reshift)]
    fn k05g_chain_position_step() {
        let k: i32 = kani::any();
        kani::assume(k >= 0 && k <= 2);
        let ts: i32 = -8 + k * 0x7e00;
        let pos: u32 = kani::any();
        kani::assume(entry_ok(pos, ts));
        let length: u32 = kani::any();
        kani::assume(length >= 1 && length <= 258);
        let text = vec![0u8; TEXT];
        kani::assume((pos + length) as usize + 4 <= TEXT);
        let table: Box<HashTable> = unsafe { Box::<HashTable>::new_uninit().assume_init() };
        let mut chain = HashChainNormalize::<ZlibRotatingHash> { hash_table: table, total_shift: ts, hash: ZlibRotatingHash { hash_mask: 0x7fff, hash_shift: 5 } };
        chain.update_hash(&text[pos as usize..], pos, length);
        let ts2 = chain.total_shift;
        assert!(ts2 == ts || ts2 == ts + 0x7e00);
        let next = pos + length;
        assert!(entry_ok(next, ts2), "position invariant not re-established: the next step can overflow the u16 position");
        let mut input = PreflateInput::new(&text[..]);
        input.advance(next);
        let off: u32 = kani::any();
        kani::assume(off <= 1);
        // table content the real update_chain maintains: every entry is a position not after the reference
        // position (the text is all zeros, so both hashes are 0 and only head[0] is consulted)
        let v: u16 = kani::any();
        kani::assume((v as i64) <= next as i64 + off as i64 - ts2 as i64);
        chain.hash_table.head[0] = InternalPosition { pos: v };
        let mut it = chain.iterate(&input, off);
        // pull one element: exercises dist() on the head entry (an arbitrary earlier position)
        let first = it.next();
        if let Some(d) = first { assert!(d <= 0xffff); }
        kani::cover!(ts2 != ts, "a reshift happened");
        kani::cover!(next as i64 - ts2 as i64 > 0xff00 && off == 1, "near the top of the u16 range with a lazy lookup");
        core::mem::forget(it);
        core::mem::forget(chain);
        core::mem::forget(text);
    }
}
