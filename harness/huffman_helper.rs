//! child of `huffman_helper`: canonical Huffman codes (C03, C07, C05)
#![allow(unused_imports, dead_code)]
use super::*;
use crate::verif_common::*;

struct OneCode { v: u32, n: u32 }
impl ReadBits for OneCode {
    fn get(&mut self, c: u32) -> std::io::Result<u32> {
        assert!(c == 1);
        kani::assume(self.n > 0);
        let r = self.v & 1;
        self.v >>= 1;
        self.n -= 1;
        Ok(r)
    }
}

fn canon<const N: usize>() {
    let lens: [u8; N] = kani::any();
    let mut i = 0;
    while i < N { kani::assume(lens[i] <= 4); i += 1; }
    // RFC 1951 §3.2.2 reference: complete (Kraft sum == 1) codes; code of symbol s = (#shorter-or-equal-earlier codes...)
    let mut kraft: u32 = 0;
    let mut i = 0;
    while i < N { if lens[i] > 0 { kraft += 1u32 << (4 - lens[i]); } i += 1; }
    let complete = kraft == 16;
    let tree = calculate_huffman_code_tree(&lens);
    assert!(tree.is_ok() == complete, "a code is accepted exactly when it is complete (Kraft sum 1)");
    if let Ok(tree) = &tree {
        let codes = calc_huffman_codes(&lens).unwrap();
        let s: usize = kani::any();
        kani::assume(s < N && lens[s] > 0);
        // RFC: codes of one length are consecutive in symbol order, starting after all shorter codes
        let mut code: u32 = 0;
        let mut l = 1u8;
        while l <= 4 {
            let mut j = 0;
            while j < N {
                if lens[j] == l { if j == s && l == lens[s] { break; } code += 1; }
                j += 1;
            }
            if l == lens[s] { break; }
            code <<= 1;
            l += 1;
        }
        // the writer stores codes bit-reversed (LSB first)
        let mut rev = 0u32;
        let mut b = 0;
        while b < 4 { if (b as u8) < lens[s] { rev |= ((code >> (lens[s] as u32 - 1 - b)) & 1) << b; } b += 1; }
        assert!(codes[s] as u32 == rev, "calc_huffman_codes differs from the RFC 1951 canonical code");
        let mut one = OneCode { v: rev, n: lens[s] as u32 };
        let got = decode_symbol(&mut one, &tree[..]).unwrap();
        assert!(got as usize == s && one.n == 0, "decode_symbol does not invert calc_huffman_codes");
        core::mem::forget(codes);
    }
    kani::cover!(complete && lens[0] == 1, "complete code with a one-bit symbol");
    kani::cover!(!complete, "incomplete or oversubscribed lengths rejected");
    core::mem::forget(tree);
}
kproof! {
    /// K07d: for every assignment of code lengths 0..=4 to 5 symbols: the tree builder accepts exactly the complete
    /// codes; calc_huffman_codes is the RFC 1951 canonical code (bit-reversed); decode_symbol inverts it
    fn k07d_canonical_code_5() { canon::<5>(); }
}
