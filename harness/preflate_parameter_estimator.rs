//! child of `preflate_parameter_estimator`
#![allow(unused_imports, dead_code)]
use super::*;
use crate::verif_common::*;

kproof! {
    /// K02a: PreflateParameters::write -> read is the identity on estimator_range,
    /// field by field, over a codec that keeps only the declared width of each value.
    fn k02a_params_rt() {
        let p = PreflateParameters { huff_strategy: any_huff_strategy(), predictor: any_predictor_params() };
        let mut rec = Rec::new();
        p.write(&mut rec);
        let q = PreflateParameters::read(&mut rec);
        assert!(q.is_ok());
        let q = q.unwrap();
        assert!(q == p, "parameters read back differ from the ones written");
        assert!(rec.fully_consumed());
        kani::cover!(matches!(p.predictor.add_policy, DictionaryAddPolicy::AddFirst(257)), "AddFirst(257)");
        kani::cover!(matches!(p.predictor.hash_algorithm, HashAlgorithm::Zlib{..}), "zlib hash");
        kani::cover!(p.predictor.min_len == u32::MAX, "no reference seen (min_len unset)");
    }
}

kproof! {
    /// K02a': the no-dictionary constant (Store / HuffOnly) round-trips too.
    fn k02a_params_rt_nodict() {
        let s = if kani::any() { PreflateStrategy::Store } else { PreflateStrategy::HuffOnly };
        let p = PreflateParameters { huff_strategy: any_huff_strategy(), predictor: nodict_predictor_params(s) };
        let mut rec = Rec::new();
        p.write(&mut rec);
        let q = PreflateParameters::read(&mut rec).unwrap();
        assert!(q == p);
        assert!(rec.fully_consumed());
        kani::cover!(s == PreflateStrategy::Store, "store");
    }
}

kproof! {
    /// K04f: PreflateParameters::write emits the same (kind, width, value) sequence as the reference
    /// build for every parameter vector: field order and widths of the header are part of the format
    fn k04f_param_header_equiv() {
        let p = any_predictor_params();
        kani::assume(p.min_len != u32::MAX);
        let (lazy, gl, ml) = match p.matching_type { MatchingType::Greedy => (0u32, 0u32, 0u32), MatchingType::Lazy { good_length, max_lazy } => (1, good_length as u32, max_lazy as u32) };
        let (pk, pl) = match p.add_policy {
            DictionaryAddPolicy::AddAll => (0u32, 0u32), DictionaryAddPolicy::AddFirst(v) => (1, v as u32), DictionaryAddPolicy::AddFirstAndLast(v) => (2, v as u32),
            DictionaryAddPolicy::AddFirstExcept4kBoundary => (3, 0), DictionaryAddPolicy::AddFirstWith32KBoundary => (4, 0),
        };
        let (hk, hm, hs) = match p.hash_algorithm {
            HashAlgorithm::None => (0u32, 0u32, 0u32), HashAlgorithm::Zlib { hash_mask, hash_shift } => (1, hash_mask as u32, hash_shift), HashAlgorithm::MiniZFast => (2, 0, 0),
            HashAlgorithm::Libdeflate4 => (3, 0, 0), HashAlgorithm::Libdeflate4Fast => (4, 0, 0), HashAlgorithm::ZlibNG => (5, 0, 0),
            HashAlgorithm::RandomVector => (6, 0, 0), HashAlgorithm::Crc32cHash => (7, 0, 0),
        };
        let huff: u32 = kani::any();
        kani::assume(huff <= 2);
        let f: [u32; 19] = [huff, if p.strategy == PreflateStrategy::Default { 0 } else { 1 }, p.window_bits, p.nice_length, pk, pl, p.max_token_count as u32,
            p.zlib_compatible as u32, p.max_dist_3_matches as u32, lazy, gl, ml, p.max_chain, p.min_len, hk, hm, hs,
            p.very_far_matches_detected as u32, p.matches_to_start_detected as u32];
        let a = super::verif_export::write_ops(&f);
        let b = preflate_ref::preflate_parameter_estimator::verif_export::write_ops(&f);
        assert!(a.n == b.n, "parameter header has a different number of fields than the reference build's");
        let mut i = 0;
        while i < crate::verif_export_common::XN {
            if i < a.n { assert!(a.kind[i] == b.kind[i] && a.ctx[i] == b.ctx[i] && a.val[i] == b.val[i], "parameter header field differs from the reference build (order, width or value)"); }
            i += 1;
        }
        kani::cover!(hk == 1 && pk == 2, "zlib hash + first-and-last");
    }
}
kproof! {
    /// K04g: the no-dictionary parameter vector (incl. the default block size) equals the reference build's
    fn k04g_nodict_params_equiv() {
        let stored: bool = kani::any();
        let a = super::verif_export::nodict_ops(stored);
        let b = preflate_ref::preflate_parameter_estimator::verif_export::nodict_ops(stored);
        assert!(a.n == b.n);
        let mut i = 0;
        while i < crate::verif_export_common::XN {
            if i < a.n { assert!(a.kind[i] == b.kind[i] && a.ctx[i] == b.ctx[i] && a.val[i] == b.val[i], "no-dictionary parameter vector differs from the reference build"); }
            i += 1;
        }
        kani::cover!(stored, "stored"); kani::cover!(!stored, "huffman only");
    }
}
