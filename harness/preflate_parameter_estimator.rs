//! child of `preflate_parameter_estimator`
#![allow(unused_imports, dead_code)]
use super::*;
use crate::verif_common::*;

kproof! {
    /// K02a: PreflateParameters::write -> read is the identity on estimator_range,
    /// field by field, over a codec that keeps only the declared width of each value.
    fn k02a_params_rt() {
        let p = PreflateParameters { huff_strategy: any_huff_strategy(), predictor: any_predictor_params() };
        let mut rec = Rec::new();
        p.write(&mut rec);
        let q = PreflateParameters::read(&mut rec);
        assert!(q.is_ok());
        let q = q.unwrap();
        assert!(q == p, "parameters read back differ from the ones written");
        assert!(rec.fully_consumed());
        kani::cover!(matches!(p.predictor.add_policy, DictionaryAddPolicy::AddFirst(255)), "AddFirst(255)");
        kani::cover!(matches!(p.predictor.hash_algorithm, HashAlgorithm::Zlib{..}), "zlib hash");
        kani::cover!(p.predictor.min_len == 0, "no reference seen (min_len unset)");
    }
}

kproof! {
    /// K02a': the no-dictionary constant (Store / HuffOnly) round-trips too.
    fn k02a_params_rt_nodict() {
        let s = if kani::any() { PreflateStrategy::Store } else { PreflateStrategy::HuffOnly };
        let p = PreflateParameters { huff_strategy: any_huff_strategy(), predictor: nodict_predictor_params(s) };
        let mut rec = Rec::new();
        p.write(&mut rec);
        let q = PreflateParameters::read(&mut rec).unwrap();
        assert!(q == p);
        assert!(rec.fully_consumed());
        kani::cover!(s == PreflateStrategy::Store, "store");
    }
}

kproof! {
    /// K04f: PreflateParameters::write emits the same (kind, width, value) sequence as the reference
    /// build for every parameter vector: field order and widths of the header are part of the format
    fn k04f_param_header_equiv() {
        let p = any_predictor_params();
        let (lazy, gl, ml) = match p.matching_type { MatchingType::Greedy => (0u32, 0u32, 0u32), MatchingType::Lazy { good_length, max_lazy } => (1, good_length as u32, max_lazy as u32) };
        let (pk, pl) = match p.add_policy {
            DictionaryAddPolicy::AddAll => (0u32, 0u32), DictionaryAddPolicy::AddFirst(v) => (1, v as u32), DictionaryAddPolicy::AddFirstAndLast(v) => (2, v as u32),
            DictionaryAddPolicy::AddFirstExcept4kBoundary => (3, 0), DictionaryAddPolicy::AddFirstWith32KBoundary => (4, 0),
        };
        let (hk, hm, hs) = match p.hash_algorithm {
            HashAlgorithm::None => (0u32, 0u32, 0u32), HashAlgorithm::Zlib { hash_mask, hash_shift } => (1, hash_mask as u32, hash_shift), HashAlgorithm::MiniZFast => (2, 0, 0),
            HashAlgorithm::Libdeflate4 => (3, 0, 0), HashAlgorithm::Libdeflate4Fast => (4, 0, 0), HashAlgorithm::ZlibNG => (5, 0, 0),
            HashAlgorithm::RandomVector => (6, 0, 0), HashAlgorithm::Crc32cHash => (7, 0, 0),
        };
        let huff: u32 = kani::any();
        kani::assume(huff <= 2);
        let f: [u32; 19] = [huff, if p.strategy == PreflateStrategy::Default { 0 } else { 1 }, p.window_bits, p.nice_length, pk, pl, p.max_token_count as u32,
            p.zlib_compatible as u32, p.max_dist_3_matches as u32, lazy, gl, ml, p.max_chain, p.min_len, hk, hm, hs,
            p.very_far_matches_detected as u32, p.matches_to_start_detected as u32];
        let a = super::verif_export::write_ops(&f);
        let b = preflate_ref::preflate_parameter_estimator::verif_export::write_ops(&f);
        assert!(a.n == b.n, "parameter header has a different number of fields than the reference build's");
        let mut i = 0;
        while i < crate::verif_export_common::XN {
            if i < a.n { assert!(a.kind[i] == b.kind[i] && a.ctx[i] == b.ctx[i] && a.val[i] == b.val[i], "parameter header field differs from the reference build (order, width or value)"); }
            i += 1;
        }
        kani::cover!(hk == 1 && pk == 2, "zlib hash + first-and-last");
    }
}
kproof! {
    /// K04g: the no-dictionary parameter vector (incl. the default block size) equals the reference build's
    fn k04g_nodict_params_equiv() {
        let stored: bool = kani::any();
        let a = super::verif_export::nodict_ops(stored);
        let b = preflate_ref::preflate_parameter_estimator::verif_export::nodict_ops(stored);
        assert!(a.n == b.n);
        let mut i = 0;
        while i < crate::verif_export_common::XN {
            if i < a.n { assert!(a.kind[i] == b.kind[i] && a.ctx[i] == b.ctx[i] && a.val[i] == b.val[i], "no-dictionary parameter vector differs from the reference build"); }
            i += 1;
        }
        kani::cover!(stored, "stored"); kani::cover!(!stored, "huffman only");
    }
}

use crate::complevel_estimator::CompLevelInfo;
use crate::preflate_token::{BlockType, PreflateToken, PreflateTokenBlock};

/// stand-in for the compression-level estimator (five boxed 64K tables: out of reach): any result in
/// recommend()'s range, with add_policy and min_len passed through exactly as the real one does
pub fn stub_comp_level(_wbits: u32, _mem_level: u32, min_len: u32, _plain: &[u8], add_policy: DictionaryAddPolicy, _blocks: &Vec<PreflateTokenBlock>) -> Result<CompLevelInfo> {
    if kani::any() {
        return Err(PreflateError::new(ExitCode::PredictBlock, ""));
    }
    let (match_type, nice_length) = any_match_row();
    let max_chain: u32 = kani::any();
    kani::assume(max_chain >= 1 && max_chain <= 4096);
    Ok(CompLevelInfo {
        zlib_compatible: kani::any(), reference_count: 0, unfound_references: 0, matches_to_start_detected: kani::any(),
        very_far_matches_detected: kani::any(), max_dist_3_matches: kani::any(), min_len, add_policy, hash_algorithm: any_hash_algorithm(),
        match_type, nice_length, max_chain,
    })
}
/// stand-in for estimate_add_policy: any policy in its range (range discharged by k02h_add_policy_range)
pub fn stub_add_policy(_b: &[PreflateTokenBlock]) -> DictionaryAddPolicy { any_add_policy() }

fn info_params<const NB: usize>() {
    let mut blocks: Vec<PreflateTokenBlock> = Vec::with_capacity(NB);
    let mut b = 0;
    while b < NB {
        let k: u8 = kani::any();
        kani::assume(k <= 2);
        let mut blk = PreflateTokenBlock::new(match k { 0 => BlockType::Stored, 1 => BlockType::StaticHuff, _ => BlockType::DynamicHuff });
        let nt: usize = kani::any();
        kani::assume(nt <= 2);
        let mut i = 0;
        while i < 2 {
            if i < nt {
                if k == 0 { blk.uncompressed.push(kani::any()); }
                else if kani::any() { blk.tokens.push(PreflateToken::Literal(kani::any())); }
                else {
                    let l: u32 = kani::any(); let d: u32 = kani::any();
                    kani::assume(l >= 3 && l <= 258 && d >= 1 && d <= 32768);
                    blk.tokens.push(PreflateToken::new_reference(l, d, false));
                }
            }
            i += 1;
        }
        blocks.push(blk);
        b += 1;
    }
    let plain = [0u8; 4];
    let r = estimate_preflate_parameters(&plain, &blocks);
    if let Ok(p) = &r {
        let mut rec = Rec::new();
        p.write(&mut rec);
        let q = PreflateParameters::read(&mut rec);
        assert!(q.is_ok());
        assert!(q.unwrap() == *p, "estimated parameters do not survive their own header");
        assert!(rec.fully_consumed());
    }
    kani::cover!(matches!(&r, Ok(p) if p.predictor.hash_algorithm == HashAlgorithm::None), "no-dictionary vector");
    kani::cover!(matches!(&r, Ok(p) if p.predictor.window_bits == 15), "32K window");
    if NB == 2 {
        kani::cover!(matches!(&r, Ok(p) if p.predictor.min_len == 0 && p.predictor.hash_algorithm != HashAlgorithm::None), "dictionary branch without any reference");
    }
    core::mem::forget(r); core::mem::forget(blocks);
}
kproof! {
    /// K05d: the estimator front end (extract_preflate_info, strategy selection, window/mem level) plus the
    /// parameter header: for every small block list, estimate_preflate_parameters is total and what it returns
    /// survives write -> read.  The two table-based estimators are replaced by range stubs.
    #[kani::stub(crate::complevel_estimator::estimate_preflate_comp_level, stub_comp_level)]
    #[kani::stub(crate::add_policy_estimator::estimate_add_policy, stub_add_policy)]
    fn k05d_info_params() { info_params::<2>(); }
}
