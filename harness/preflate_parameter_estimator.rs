//! child of `preflate_parameter_estimator`
#![allow(unused_imports, dead_code)]
use super::*;
use crate::verif_common::*;

kproof! {
    /// K02a: PreflateParameters::write -> read is the identity on estimator_range,
    /// field by field, over a codec that keeps only the declared width of each value.
    fn k02a_params_rt() {
        let p = PreflateParameters { huff_strategy: any_huff_strategy(), predictor: any_predictor_params() };
        let mut rec = Rec::new();
        p.write(&mut rec);
        let q = PreflateParameters::read(&mut rec);
        assert!(q.is_ok());
        let q = q.unwrap();
        assert!(q == p, "parameters read back differ from the ones written");
        assert!(rec.fully_consumed());
        kani::cover!(matches!(p.predictor.add_policy, DictionaryAddPolicy::AddFirst(257)), "AddFirst(257)");
        kani::cover!(matches!(p.predictor.hash_algorithm, HashAlgorithm::Zlib{..}), "zlib hash");
        kani::cover!(p.predictor.min_len == u32::MAX, "no reference seen (min_len unset)");
    }
}

kproof! {
    /// K02a': the no-dictionary constant (Store / HuffOnly) round-trips too.
    fn k02a_params_rt_nodict() {
        let s = if kani::any() { PreflateStrategy::Store } else { PreflateStrategy::HuffOnly };
        let p = PreflateParameters { huff_strategy: any_huff_strategy(), predictor: nodict_predictor_params(s) };
        let mut rec = Rec::new();
        p.write(&mut rec);
        let q = PreflateParameters::read(&mut rec).unwrap();
        assert!(q == p);
        assert!(rec.fully_consumed());
        kani::cover!(s == PreflateStrategy::Store, "store");
    }
}
