//! child of `deflate_reader`: parser-side harnesses (C03, C05, C07)
#![allow(unused_imports, dead_code)]
use super::*;
use crate::deflate_writer::DeflateWriter;
use crate::preflate_token::{PreflateToken, PreflateTokenBlock};
use crate::verif_common::*;

/// parse one block with the real reader and write it back with the real writer
fn stored_rewrite<const N: usize>() {
    let mut src = Src::<N>::any();
    let data = src.data;
    // stored block: BTYPE bits (1,2) of the first byte are 00
    kani::assume(data[0] & 0x06 == 0);
    let mut rd = DeflateReader::new(&mut src);
    let mut last = false;
    let r = rd.read_block(&mut last);
    kani::assume(r.is_ok());
    let blk = r.unwrap();
    assert!(blk.block_type == BlockType::Stored);
    let pad = rd.read_eof_padding();
    let plain = rd.move_plain_text();
    drop(rd);
    let consumed = src.pos;

    // RFC 1951 §3.2.4 reference: LEN at bytes 1..3, NLEN at 3..5, then LEN raw bytes
    let len = u16::from_le_bytes([data[1], data[2]]) as usize;
    let nlen = u16::from_le_bytes([data[3], data[4]]);
    assert!(nlen == !(len as u16));
    assert!(last == (data[0] & 1 == 1));
    assert!(consumed == 5 + len, "consumed length differs from the reference");
    assert!(plain.len() == len);
    let mut i = 0;
    while i < N {
        if i < len { assert!(plain[i] == data[5 + i], "plaintext differs from the reference"); }
        i += 1;
    }

    let mut w = DeflateWriter::new();
    w.encode_block(&blk, last).unwrap();
    w.flush_with_padding(pad);
    let out = w.detach_output();
    assert!(out.len() == consumed, "rewritten length differs");
    let mut i = 0;
    while i < N {
        if i < consumed { assert!(out[i] == data[i], "rewritten stored block differs from the input"); }
        i += 1;
    }
    kani::cover!(len == N - 5 && data[0] >> 3 != 0, "full payload, non-zero padding bits");
    kani::cover!(len == 0 && last, "empty final stored block");
}

kproof! {
    /// K07a/K03c: stored block parse -> rewrite identity and agreement with the RFC, N = 7
    fn k07a_stored_rewrite_7() { stored_rewrite::<7>(); }
}
kproof! {
    fn k07a_stored_rewrite_10() { stored_rewrite::<10>(); }
}
