//! child of `deflate_reader`: parser-side harnesses (C03, C05, C07)
#![allow(unused_imports, dead_code)]
use super::*;
use crate::deflate_writer::DeflateWriter;
use crate::preflate_token::{PreflateToken, PreflateTokenBlock};
use crate::verif_common::*;

/// parse one block with the real reader and write it back with the real writer
fn stored_rewrite<const N: usize>() {
    let mut src = Src::<N>::any();
    let data = src.data;
    // stored block: BTYPE bits (1,2) of the first byte are 00
    kani::assume(data[0] & 0x06 == 0);
    let mut rd = DeflateReader::new(&mut src);
    let mut last = false;
    let r = rd.read_block(&mut last);
    kani::assume(r.is_ok());
    let blk = r.unwrap();
    assert!(blk.block_type == BlockType::Stored);
    let pad = rd.read_eof_padding();
    let plain = rd.move_plain_text();
    drop(rd);
    let consumed = src.pos;

    // RFC 1951 §3.2.4 reference: LEN at bytes 1..3, NLEN at 3..5, then LEN raw bytes
    let len = u16::from_le_bytes([data[1], data[2]]) as usize;
    let nlen = u16::from_le_bytes([data[3], data[4]]);
    assert!(nlen == !(len as u16));
    assert!(last == (data[0] & 1 == 1));
    assert!(consumed == 5 + len, "consumed length differs from the reference");
    assert!(plain.len() == len);
    let mut i = 0;
    while i < N {
        if i < len { assert!(plain[i] == data[5 + i], "plaintext differs from the reference"); }
        i += 1;
    }

    let mut w = DeflateWriter::new();
    w.encode_block(&blk, last).unwrap();
    w.flush_with_padding(pad);
    let out = w.detach_output();
    assert!(out.len() == consumed, "rewritten length differs");
    let mut i = 0;
    while i < N {
        if i < consumed { assert!(out[i] == data[i], "rewritten stored block differs from the input"); }
        i += 1;
    }
    kani::cover!(len == N - 5 && data[0] >> 3 != 0, "full payload, non-zero padding bits");
    kani::cover!(len == 0 && last, "empty final stored block");
}

kproof! {
    /// K07a/K03c: stored block parse -> rewrite identity and agreement with the RFC, N = 7
    fn k07a_stored_rewrite_7() { stored_rewrite::<7>(); }
}
kproof! {
    fn k07a_stored_rewrite_10() { stored_rewrite::<10>(); }
}

use crate::huffman_encoding::HuffmanReader;

/// no-op stand-in for DeflateReader::write_reference in the *rewrite* lemma (the plaintext
/// is not its subject; the window is pre-filled so that every distance is legal)
pub fn stub_write_reference<R: Read>(_s: &mut DeflateReader<R>, _dist: u32, _len: u32) {}
pub fn stub_write_literal<R: Read>(_s: &mut DeflateReader<R>, _byte: u8) {}

/// fixed-Huffman block: real decode_block + real writer vs the input bits and vs the RFC reference
fn fixed_rewrite<const N: usize>(window: usize, check_plain: bool, max_tokens: usize) {
    let mut src = Src::<N>::any();
    let data = src.data;
    let wfill: u8 = 0;
    // Bound on the number of tokens, stated on the RFC reference *before* the real decoder runs
    // (assumptions are not retroactive): the real loop's unwinding assertion then checks that
    // the real decoder stops within max_tokens + 1 iterations whenever the reference does.
    let rb = ref_fixed_block(&data, 3, window);
    kani::assume(rb.n <= max_tokens && !rb.too_many);
    let mut rd = DeflateReader::new(&mut src);
    rd.plain_text = vec![0u8; window];
    let last = rd.read_bit().unwrap();
    let mode = rd.read_bits(2).unwrap();
    kani::assume(mode == 1);
    let decoder = HuffmanReader::create_fixed().unwrap();
    let mut blk = PreflateTokenBlock::new(BlockType::StaticHuff);
    let r = rd.decode_block(&decoder, &mut blk);
    kani::assume(r.is_ok());
    let pad = rd.read_eof_padding();
    let plain = rd.move_plain_text();
    drop(rd);
    let consumed = src.pos;

    // --- C03: agreement with the RFC reference
    assert!(rb.ok, "reader accepted a block the RFC reference rejects");
    assert!(!rb.too_many);
    assert!(blk.tokens.len() == rb.n, "token count differs from the reference");
    assert!(consumed == (rb.end_bit + 7) / 8, "consumed length differs from the reference");
    let mut i = 0;
    while i < REF_MAXTOK {
        if i < rb.n {
            match blk.tokens[i] {
                PreflateToken::Literal(l) => assert!(!rb.toks[i].is_ref && rb.toks[i].lit == l),
                PreflateToken::Reference(r) => {
                    assert!(rb.toks[i].is_ref && rb.toks[i].len == r.len() && rb.toks[i].dist == r.dist());
                    assert!(r.get_irregular258() == (r.len() == 258 && rb.toks[i].lcode == 27));
                }
            }
        }
        i += 1;
    }
    if check_plain {
        // replay the reference tokens over the window
        let mut exp: Vec<u8> = vec![0u8; window];
        let mut i = 0;
        while i < REF_MAXTOK {
            if i < rb.n {
                if rb.toks[i].is_ref {
                    let mut k = 0;
                    while k < rb.toks[i].len { let b = exp[exp.len() - rb.toks[i].dist as usize]; exp.push(b); k += 1; }
                } else { exp.push(rb.toks[i].lit); }
            }
            i += 1;
        }
        assert!(plain.len() == exp.len(), "plaintext length differs from the reference");
        let mut i = 0;
        while i < exp.len() { assert!(plain[i] == exp[i], "plaintext differs from the reference"); i += 1; }
    }

    // --- C07: rewrite identity
    let mut w = DeflateWriter::new();
    w.encode_block(&blk, last).unwrap();
    w.flush_with_padding(pad);
    let out = w.detach_output();
    assert!(out.len() == consumed, "rewritten length differs from the consumed length");
    let mut i = 0;
    while i < N {
        if i < consumed { assert!(out[i] == data[i], "rewritten fixed block differs from the input"); }
        i += 1;
    }
    kani::cover!(rb.n >= 1 && rb.toks[0].is_ref, "a block with a reference token was accepted");
    kani::cover!(rb.n == 0, "empty block");
}

kproof! {
    /// K07b/K03b: every fixed-Huffman block with at most ONE token (any literal, any (length, distance),
    /// incl. 284+31 for 258) followed by EOB, all final padding patterns; window pre-filled (32768)
    #[kani::stub(crate::huffman_encoding::HuffmanReader::create_fixed, crate::huffman_encoding::verif_harness::stub_create_fixed)]
    #[kani::stub(crate::huffman_encoding::HuffmanWriter::start_fixed_huffman_table, crate::huffman_encoding::verif_harness::stub_start_fixed)]
    #[kani::stub(crate::deflate_reader::DeflateReader::write_reference, stub_write_reference)]
    #[kani::stub(crate::deflate_reader::DeflateReader::write_literal, stub_write_literal)]
    fn k07b_fixed_token_6() { fixed_rewrite::<6>(32768, false, 1); }
}

kproof! {
    /// K07b': all fixed-Huffman blocks of <= 3 tokens that end within 3 bytes
    #[kani::stub(crate::huffman_encoding::HuffmanReader::create_fixed, crate::huffman_encoding::verif_harness::stub_create_fixed)]
    #[kani::stub(crate::huffman_encoding::HuffmanWriter::start_fixed_huffman_table, crate::huffman_encoding::verif_harness::stub_start_fixed)]
    #[kani::stub(crate::deflate_reader::DeflateReader::write_reference, stub_write_reference)]
    #[kani::stub(crate::deflate_reader::DeflateReader::write_literal, stub_write_literal)]
    fn k07b_fixed_rewrite_3() { fixed_rewrite::<3>(32768, false, 2); }
}
kproof! {
    /// K03b: plaintext of fixed blocks equals the reference's (real write_literal / write_reference),
    /// 4-byte window of zeros, blocks within 3 bytes
    #[kani::stub(crate::huffman_encoding::HuffmanReader::create_fixed, crate::huffman_encoding::verif_harness::stub_create_fixed)]
    #[kani::stub(crate::huffman_encoding::HuffmanWriter::start_fixed_huffman_table, crate::huffman_encoding::verif_harness::stub_start_fixed)]
    fn k03b_fixed_plain_3() { fixed_rewrite::<3>(4, true, 2); }
}
