//! child of `deflate_reader`: parser-side harnesses (C03, C05, C07)
#![allow(unused_imports, dead_code)]
use super::*;
use crate::deflate_writer::DeflateWriter;
use crate::preflate_token::{PreflateToken, PreflateTokenBlock};
use crate::verif_common::*;

/// parse one block with the real reader and write it back with the real writer
fn stored_rewrite<const N: usize>() {
    let mut src = Src::<N>::any();
    let data = src.data;
    // stored block: BTYPE bits (1,2) of the first byte are 00
    kani::assume(data[0] & 0x06 == 0);
    let mut rd = DeflateReader::new(&mut src);
    let mut last = false;
    let r = rd.read_block(&mut last);
    kani::assume(r.is_ok());
    let blk = r.unwrap();
    assert!(blk.block_type == BlockType::Stored);
    let pad = rd.read_eof_padding();
    let plain = rd.move_plain_text();
    drop(rd);
    let consumed = src.pos;

    // RFC 1951 §3.2.4 reference: LEN at bytes 1..3, NLEN at 3..5, then LEN raw bytes
    let len = u16::from_le_bytes([data[1], data[2]]) as usize;
    let nlen = u16::from_le_bytes([data[3], data[4]]);
    assert!(nlen == !(len as u16));
    assert!(last == (data[0] & 1 == 1));
    assert!(consumed == 5 + len, "consumed length differs from the reference");
    assert!(plain.len() == len);
    let mut i = 0;
    while i < N {
        if i < len { assert!(plain[i] == data[5 + i], "plaintext differs from the reference"); }
        i += 1;
    }

    let mut w = DeflateWriter::new();
    w.encode_block(&blk, last).unwrap();
    w.flush_with_padding(pad);
    let out = w.detach_output();
    assert!(out.len() == consumed, "rewritten length differs");
    let mut i = 0;
    while i < N {
        if i < consumed { assert!(out[i] == data[i], "rewritten stored block differs from the input"); }
        i += 1;
    }
    kani::cover!(len == N - 5 && data[0] >> 3 != 0, "full payload, non-zero padding bits");
    kani::cover!(len == 0 && last, "empty final stored block");
}

kproof! {
    /// K07a/K03c: stored block parse -> rewrite identity and agreement with the RFC, N = 7
    fn k07a_stored_rewrite_7() { stored_rewrite::<7>(); }
}
kproof! {
    fn k07a_stored_rewrite_10() { stored_rewrite::<10>(); }
}

use crate::huffman_encoding::HuffmanReader;

/// no-op stand-in for DeflateReader::write_reference in the *rewrite* lemma (the plaintext
/// is not its subject; the window is pre-filled so that every distance is legal)
pub fn stub_write_reference<R: Read>(_s: &mut DeflateReader<R>, _dist: u32, _len: u32) {}
pub fn stub_write_literal<R: Read>(_s: &mut DeflateReader<R>, _byte: u8) {}

/// fixed-Huffman block: real decode_block + real writer vs the input bits and vs the RFC reference
fn fixed_rewrite<const N: usize>(window: usize, check_plain: bool, max_tokens: usize) {
    let mut src = Src::<N>::any();
    let data = src.data;
    let wfill: u8 = 0;
    // Bound on the number of tokens, stated on the RFC reference *before* the real decoder runs
    // (assumptions are not retroactive): the real loop's unwinding assertion then checks that
    // the real decoder stops within max_tokens + 1 iterations whenever the reference does.
    let rb = ref_fixed_block(&data, 3, window);
    kani::assume(rb.n <= max_tokens && !rb.too_many);
    let mut rd = DeflateReader::new(&mut src);
    rd.plain_text = vec![0u8; window];
    let last = rd.read_bit().unwrap();
    let mode = rd.read_bits(2).unwrap();
    kani::assume(mode == 1);
    let decoder = HuffmanReader::create_fixed().unwrap();
    let mut blk = PreflateTokenBlock::new(BlockType::StaticHuff);
    let r = rd.decode_block(&decoder, &mut blk);
    kani::assume(r.is_ok());
    let pad = rd.read_eof_padding();
    let plain = rd.move_plain_text();
    drop(rd);
    let consumed = src.pos;

    // --- C03: agreement with the RFC reference
    assert!(rb.ok, "reader accepted a block the RFC reference rejects");
    assert!(!rb.too_many);
    assert!(blk.tokens.len() == rb.n, "token count differs from the reference");
    assert!(consumed == (rb.end_bit + 7) / 8, "consumed length differs from the reference");
    let mut i = 0;
    while i < REF_MAXTOK {
        if i < rb.n {
            match blk.tokens[i] {
                PreflateToken::Literal(l) => assert!(!rb.toks[i].is_ref && rb.toks[i].lit == l),
                PreflateToken::Reference(r) => {
                    assert!(rb.toks[i].is_ref && rb.toks[i].len == r.len() && rb.toks[i].dist == r.dist());
                    assert!(r.get_irregular258() == (r.len() == 258 && rb.toks[i].lcode == 27));
                }
            }
        }
        i += 1;
    }
    if check_plain {
        // replay the reference tokens over the window
        let mut exp: Vec<u8> = vec![0u8; window];
        let mut i = 0;
        while i < REF_MAXTOK {
            if i < rb.n {
                if rb.toks[i].is_ref {
                    let mut k = 0;
                    while k < rb.toks[i].len { let b = exp[exp.len() - rb.toks[i].dist as usize]; exp.push(b); k += 1; }
                } else { exp.push(rb.toks[i].lit); }
            }
            i += 1;
        }
        assert!(plain.len() == exp.len(), "plaintext length differs from the reference");
        let mut i = 0;
        while i < exp.len() { assert!(plain[i] == exp[i], "plaintext differs from the reference"); i += 1; }
    }

    // --- C07: rewrite identity
    let mut w = DeflateWriter::new();
    w.encode_block(&blk, last).unwrap();
    w.flush_with_padding(pad);
    let out = w.detach_output();
    assert!(out.len() == consumed, "rewritten length differs from the consumed length");
    let mut i = 0;
    while i < N {
        if i < consumed { assert!(out[i] == data[i], "rewritten fixed block differs from the input"); }
        i += 1;
    }
    kani::cover!(rb.n >= 1 && rb.toks[0].is_ref, "a block with a reference token was accepted");
    kani::cover!(rb.n == 0, "empty block");
}

kproof! {
    /// K07b/K03b: every fixed-Huffman block with at most ONE token (any literal, any (length, distance),
    /// incl. 284+31 for 258) followed by EOB, all final padding patterns; window pre-filled (32768)
    #[kani::stub(crate::huffman_encoding::HuffmanReader::create_fixed, crate::huffman_encoding::verif_harness::stub_create_fixed)]
    #[kani::stub(crate::huffman_encoding::HuffmanWriter::start_fixed_huffman_table, crate::huffman_encoding::verif_harness::stub_start_fixed)]
    #[kani::stub(crate::deflate_reader::DeflateReader::write_reference, stub_write_reference)]
    #[kani::stub(crate::deflate_reader::DeflateReader::write_literal, stub_write_literal)]
    fn k07b_fixed_token_6() { fixed_rewrite::<6>(32768, false, 1); }
}

kproof! {
    /// K07b': all fixed-Huffman blocks of <= 3 tokens that end within 3 bytes
    #[kani::stub(crate::huffman_encoding::HuffmanReader::create_fixed, crate::huffman_encoding::verif_harness::stub_create_fixed)]
    #[kani::stub(crate::huffman_encoding::HuffmanWriter::start_fixed_huffman_table, crate::huffman_encoding::verif_harness::stub_start_fixed)]
    #[kani::stub(crate::deflate_reader::DeflateReader::write_reference, stub_write_reference)]
    #[kani::stub(crate::deflate_reader::DeflateReader::write_literal, stub_write_literal)]
    fn k07b_fixed_rewrite_3() { fixed_rewrite::<3>(32768, false, 2); }
}
kproof! {
    /// K03b: plaintext of fixed blocks equals the reference's (real write_literal / write_reference),
    /// 4-byte window of zeros, blocks within 3 bytes
    #[kani::stub(crate::huffman_encoding::HuffmanReader::create_fixed, crate::huffman_encoding::verif_harness::stub_create_fixed)]
    #[kani::stub(crate::huffman_encoding::HuffmanWriter::start_fixed_huffman_table, crate::huffman_encoding::verif_harness::stub_start_fixed)]
    fn k03b_fixed_plain_3() { fixed_rewrite::<3>(4, true, 2); }
}

fn write_reference_at<const W: usize>(win_src: &[u8; W], dist: u32, len: u32) {
    let mut win: Vec<u8> = Vec::with_capacity(W + 300);
    win.extend_from_slice(win_src);
    let mut src = Src::<1>::any();
    let mut rd = DeflateReader::new(&mut src);
    rd.plain_text = win;
    rd.write_reference(dist, len);
    let out = rd.move_plain_text();
    assert!(out.len() == W + len as usize);
    let k: usize = kani::any();
    kani::assume(k < len as usize);
    // RFC 1951 §3.2.3: each byte is the byte `dist` positions back in the output produced so far
    assert!(out[W + k] == out[W + k - dist as usize], "window copy differs from the RFC 1951 definition");
    core::mem::forget(out);
}
const fn gen_win<const W: usize>() -> [u8; W] { let mut a = [0u8; W]; let mut i = 0; while i < W { a[i] = ((i * 7) % 251) as u8; i += 1; } a }
static WIN_SMALL: [u8; 64] = gen_win::<64>(); // evaluated by the compiler, not by symbolic execution
static WIN_FULL: [u8; 32768] = gen_win::<32768>();

kproof! {
    /// K03f: DeflateReader::write_reference = RFC 1951 window copy: every distance 1..=64 (symbolic) for lengths
    /// 3 and 70 (concrete: a symbolic length makes every push a potential reallocation), over position-
    /// dependent content (an off-by-one in the start index is visible), incl. overlapping copies
    fn k03f_write_reference() {
        let dist: u32 = kani::any();
        kani::assume(dist >= 1 && dist <= 64);
        write_reference_at::<64>(&WIN_SMALL, dist, 3);
        write_reference_at::<64>(&WIN_SMALL, dist, 70);
        kani::cover!(dist == 64, "whole window back");
        kani::cover!(dist == 1, "run-length style overlap");
    }
}
kproof! {
    /// K03f-far: the far end of a full window: distances 32768, 32767, 4096 x lengths 3 and 258 (concrete)
    fn k03f_write_reference_far() {
        write_reference_at::<32768>(&WIN_FULL, 32768, 258);
        write_reference_at::<32768>(&WIN_FULL, 32768, 3);
        write_reference_at::<32768>(&WIN_FULL, 32767, 258);
        write_reference_at::<32768>(&WIN_FULL, 4096, 3);
        kani::cover!(true, "reached");
    }
}
/// far end of a full 32 KiB window: the window is a zero-initialised allocation (no 32 KiB initialiser for the
/// solver to chew on) whose first four and last byte are symbolic, so a copy that starts one byte late or early is visible
fn write_reference_far(dist: u32, len: u32) {
    const W: usize = 32768;
    let mut win: Vec<u8> = vec![0u8; W + 8];
    win.truncate(W);
    win[0] = kani::any(); win[1] = kani::any(); win[2] = kani::any(); win[3] = kani::any(); win[W - 1] = kani::any();
    let mut src = Src::<1>::any();
    let mut rd = DeflateReader::new(&mut src);
    rd.plain_text = win;
    rd.write_reference(dist, len);
    let out = rd.move_plain_text();
    assert!(out.len() == W + len as usize);
    let mut k = 0usize;
    while k < 4 {
        if k < len as usize { assert!(out[W + k] == out[W + k - dist as usize], "window copy differs from the RFC 1951 definition at the far end of the window"); }
        k += 1;
    }
    core::mem::forget(out);
}
kproof! {
    /// K03f-far3: the far end of a full 32 KiB window with short copies: distances 32768 / 32767 / 32766 x length 3..4
    /// (RFC 1951: distances up to 32768 are legal; a clamp or an off-by-one at the window edge shows here)
    #[kani::stub(alloc::alloc::realloc, crate::verif_common::stub_realloc_unreachable)]
    fn k03f_write_reference_far3() {
        write_reference_far(32768, 3);
        write_reference_far(32767, 3);
        write_reference_far(32766, 4);
        kani::cover!(true, "reached");
    }
}

/// pack `nbits` low bits of `v` at bit position `*pos` (LSB first), advance
fn put_bits(buf: &mut [u8; 8], pos: &mut usize, v: u32, nbits: u32) {
    let mut i = 0;
    while i < nbits {
        if (v >> i) & 1 == 1 { buf[*pos >> 3] |= 1 << (*pos & 7); }
        *pos += 1;
        i += 1;
    }
}
/// Huffman codes are packed most significant bit first
fn put_code(buf: &mut [u8; 8], pos: &mut usize, code: u32, nbits: u32) {
    let mut i = 0;
    while i < nbits {
        if (code >> (nbits - 1 - i)) & 1 == 1 { buf[*pos >> 3] |= 1 << (*pos & 7); }
        *pos += 1;
        i += 1;
    }
}
/// RFC 1951 fixed code of a literal/length symbol: (code, bits)
fn rfc_fixed_code(sym: u32) -> (u32, u32) {
    if sym <= 143 { (0b00110000 + sym, 8) } else if sym <= 255 { (0b110010000 + (sym - 144), 9) } else if sym <= 279 { (sym - 256, 7) } else { (0b11000000 + (sym - 280), 8) }
}

/// one reference token with CONCRETE length and distance codes (so every bit position is concrete) and SYMBOLIC
/// extra bits, then end-of-block: the real decode_block must return base + extra for both, flag 284+31,
/// and consume exactly the bytes written.  Concrete layout keeps BitReader's state concrete (see DESIGN §1.2).
fn fixed_reader_code(lcode: u32, dcode: u32) {
    let lx = RFC_LEN_EXTRA[lcode as usize] as u32;
    let dx = RFC_DIST_EXTRA[dcode as usize] as u32;
    let le: u32 = kani::any();
    let de: u32 = kani::any();
    kani::assume(le < (1u32 << lx) && de < (1u32 << dx));
    let last: bool = true; // concrete: a symbolic first byte would make the block type symbolic for symbolic execution
    let mut buf = [0u8; 8];
    let mut pos = 0usize;
    put_bits(&mut buf, &mut pos, last as u32, 1);
    put_bits(&mut buf, &mut pos, 1, 2);
    let (c, n) = rfc_fixed_code(257 + lcode);
    put_code(&mut buf, &mut pos, c, n);
    put_bits(&mut buf, &mut pos, le, lx);
    put_code(&mut buf, &mut pos, dcode, 5);
    put_bits(&mut buf, &mut pos, de, dx);
    put_code(&mut buf, &mut pos, 0, 7); // end of block
    let nbytes = (pos + 7) / 8;
    let mut src = Src::<8> { data: buf, pos: 0, len: 8 };
    let mut rd = DeflateReader::new(&mut src);
    rd.plain_text = vec![0u8; 32768];
    let mut l = false;
    let r = rd.read_block(&mut l);
    assert!(r.is_ok(), "a well-formed fixed block was rejected");
    let blk = r.unwrap();
    let _pad = rd.read_eof_padding();
    drop(rd);
    assert!(l == last);
    assert!(src.pos == nbytes, "consumed length differs from the RFC reading");
    assert!(blk.tokens.len() == 1);
    match blk.tokens[0] {
        PreflateToken::Reference(t) => {
            assert!(t.len() == RFC_LEN_BASE[lcode as usize] as u32 + le, "length differs from RFC 1951 base + extra");
            assert!(t.dist() == RFC_DIST_BASE[dcode as usize] as u32 + de, "distance differs from RFC 1951 base + extra");
            assert!(t.get_irregular258() == (lcode == 27 && le == 31), "irregular-258 flag wrong");
        }
        _ => assert!(false, "reference decoded as literal"),
    }
    core::mem::forget(blk);
}
macro_rules! k03g { ($(#[$m:meta])* fn $n:ident() $b:block) => { kproof! {
    $(#[$m])*
    #[kani::stub(crate::huffman_encoding::HuffmanReader::create_fixed, crate::huffman_encoding::verif_harness::stub_create_fixed)]
    #[kani::stub(crate::deflate_reader::DeflateReader::write_reference, stub_write_reference)]
    fn $n() $b
} } }
fn len_codes(from: u32, to: u32) { let mut lc = from; while lc < to { fixed_reader_code(lc, 0); lc += 1; } kani::cover!(true, "reached"); }
fn dist_codes(from: u32, to: u32) { let mut dc = from; while dc < to { fixed_reader_code(0, dc); dc += 1; } kani::cover!(true, "reached"); }
k03g! {
    /// K03g: length codes 281..=285 (incl. 284 with extra 31 = irregular 258, and 285) x every extra-bit value
    fn k03g_fixed_reader_len_24_28() { len_codes(24, 29); }
}
k03g! {
    /// K03g-quick: length codes 284 (incl. extra 31 = irregular 258) and 285
    fn k03g_fixed_reader_len_27_28() { len_codes(27, 29); }
}
k03g! {
    /// K03g-quick: distance codes 28, 29 (13 extra bits, up to distance 32768)
    fn k03g_fixed_reader_dist_28_29() { dist_codes(28, 30); }
}
k03g! { fn k03g_fixed_reader_len_0_7() { len_codes(0, 8); } }
k03g! { fn k03g_fixed_reader_len_8_11() { len_codes(8, 12); } }
k03g! { fn k03g_fixed_reader_len_12_15() { len_codes(12, 16); } }
k03g! { fn k03g_fixed_reader_len_16_19() { len_codes(16, 20); } }
k03g! { fn k03g_fixed_reader_len_20_23() { len_codes(20, 24); } }
k03g! {
    /// K03g': distance codes 24..=29 (the 11..13 extra-bit codes) x every extra-bit value
    fn k03g_fixed_reader_dist_24_29() { dist_codes(24, 30); }
}
k03g! { fn k03g_fixed_reader_dist_0_7() { dist_codes(0, 8); } }
k03g! { fn k03g_fixed_reader_dist_8_11() { dist_codes(8, 12); } }
k03g! { fn k03g_fixed_reader_dist_12_15() { dist_codes(12, 16); } }
k03g! { fn k03g_fixed_reader_dist_16_19() { dist_codes(16, 20); } }
k03g! { fn k03g_fixed_reader_dist_20_23() { dist_codes(20, 24); } }
