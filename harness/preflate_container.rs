//! Harnesses that are children of `preflate_container` (see private items).
#![allow(unused_imports, dead_code)]
use super::*;
use crate::verif_common::*;

kproof! {
    /// K01b: read_varint(write_varint(v)) == v for every u32, buffer fully consumed.
    fn k01b_varint_rt() {
        let v: u32 = kani::any();
        let mut buf: Vec<u8> = Vec::new();
        write_varint(&mut buf, v).unwrap();
        assert!(buf.len() >= 1 && buf.len() <= 5);
        let mut s = &buf[..];
        let r = read_varint(&mut s).unwrap();
        assert_eq!(r, v);
        assert!(s.is_empty());
        kani::cover!(buf.len() == 5, "five-byte varint");
        kani::cover!(buf.len() == 1, "one-byte varint");
    }
}

/// Literal-only containers never reach the deflate arm of read_chunk_block, but symbolic execution
/// explores it (the tag byte is read back from memory): cut it with a stub that fails.
pub fn stub_recompress_err(_p: &[u8], _c: &[u8]) -> Result<Vec<u8>, PreflateError> {
    Err(PreflateError::new(ExitCode::RecompressFailed, ""))
}
/// analysis stub for files in which no stream is accepted (what holds for every file of <= 3 bytes
/// in the real code as well: parse needs >= 1024 bytes of plaintext to be accepted by the scanner)
pub fn stub_decompress_reject(_d: &[u8], _v: bool, _l: u32) -> Result<DecompressResult, PreflateError> {
    Err(PreflateError::new(ExitCode::InvalidDeflate, ""))
}

// ---------------------------------------------------------------------------
// C13 seams: fragmenting / failing reader and writer
// ---------------------------------------------------------------------------
pub const FR_N: usize = 10;
/// Source over a fixed buffer whose every `read` returns a solver-chosen 1..=want bytes,
/// may report ErrorKind::Interrupted (at most `intr` times), and fails hard at offset `fail_at`.
pub struct FragRead {
    pub data: [u8; FR_N],
    pub len: usize,
    pub pos: usize,
    pub fail_at: usize, // >= len+1 means never
    pub intr: u8,
    pub failed: bool,
}
impl Read for FragRead {
    fn read(&mut self, buf: &mut [u8]) -> std::io::Result<usize> {
        if buf.is_empty() { return Ok(0); }
        if self.pos >= self.fail_at {
            self.failed = true;
            return Err(std::io::Error::from(std::io::ErrorKind::BrokenPipe));
        }
        if self.intr > 0 && kani::any() {
            self.intr -= 1;
            return Err(std::io::Error::from(std::io::ErrorKind::Interrupted));
        }
        if self.pos >= self.len { return Ok(0); }
        let avail = core::cmp::min(core::cmp::min(buf.len(), self.len - self.pos), self.fail_at - self.pos);
        let k: usize = kani::any();
        kani::assume(k >= 1 && k <= avail);
        let mut i = 0;
        while i < k { buf[i] = self.data[self.pos + i]; i += 1; }
        self.pos += k;
        Ok(k)
    }
}
/// Destination that accepts a solver-chosen 1..=n bytes per write and fails at offset `fail_at`.
pub struct FragWrite {
    pub out: [u8; FR_N],
    pub n: usize,
    pub fail_at: usize,
    pub failed: bool,
}
impl Write for FragWrite {
    fn write(&mut self, buf: &[u8]) -> std::io::Result<usize> {
        if buf.is_empty() { return Ok(0); }
        if self.n >= self.fail_at {
            self.failed = true;
            return Err(std::io::Error::from(std::io::ErrorKind::BrokenPipe));
        }
        let room = core::cmp::min(buf.len(), self.fail_at - self.n);
        let k: usize = kani::any();
        kani::assume(k >= 1 && k <= room);
        let mut i = 0;
        while i < k {
            assert!(self.n + i < FR_N, "more bytes written than the original file holds");
            self.out[self.n + i] = buf[i];
            i += 1;
        }
        self.n += k;
        Ok(k)
    }
    fn flush(&mut self) -> std::io::Result<()> { Ok(()) }
}

/// PNG arm of read_chunk_block is unreachable for literal-only containers; cut it for symbolic execution
pub fn stub_idat_read_err<R: Read>(_r: &mut R) -> std::io::Result<IdatContents> {
    Err(std::io::Error::from(std::io::ErrorKind::InvalidData))
}
/// files of <= 3 bytes cannot hold a gzip (>= 10 bytes), zip (>= 30) or IDAT (>= 12) header: the three
/// parsers return Err there (discharged by k01_gzip_hdr_16, k01_zip_hdr_34, k01e_idat_total_27)
pub fn stub_gzip_err<R: Read>(_r: &mut R) -> crate::preflate_error::Result<()> { Err(PreflateError::new(ExitCode::InvalidDeflate, "")) }
pub fn stub_zip_err(_c: &[u8]) -> crate::preflate_error::Result<(usize, DecompressResult)> { Err(PreflateError::new(ExitCode::InvalidDeflate, "")) }
pub fn stub_idat_err(_c: &[u8], _l: u32) -> crate::preflate_error::Result<(IdatContents, Vec<u8>)> { Err(PreflateError::new(ExitCode::InvalidIDat, "")) }

/// container of <= 2 literal chunks built with the real writer from a symbolic file
fn literal_container(file: &[u8; 6], flen: usize, split: usize) -> Vec<u8> {
    let mut c: Vec<u8> = Vec::with_capacity(16);
    c.push(COMPRESSED_WRAPPER_VERSION_1);
    write_chunk_block(BlockChunk::Literal(split), &file[..flen], &mut c).unwrap();
    if split < flen {
        write_chunk_block(BlockChunk::Literal(flen - split), &file[split..flen], &mut c).unwrap();
    }
    c
}
// Structure (file length, split point) is CONCRETE per harness instance, content bytes symbolic:
// with symbolic lengths every Vec write site may reallocate and CBMC's pointer value sets explode
// (measured: no result in 15 min / > 14 GB); concrete structure keeps tags and lengths constant-folded.

fn literal_chunks_rt<const FLEN: usize, const SPLIT: usize>() {
    let file: [u8; 6] = kani::any();
    let c = literal_container(&file, FLEN, SPLIT);
    let mut src = &c[..];
    let mut out: Vec<u8> = Vec::with_capacity(8);
    let r = recreated_zlib_chunks(&mut src, &mut out);
    assert!(r.is_ok());
    assert!(out.len() == FLEN);
    let mut i = 0;
    while i < 6 { if i < FLEN { assert!(out[i] == file[i]); } i += 1; }
    kani::cover!(true, "reached");
    core::mem::forget(out); core::mem::forget(c);
}
macro_rules! stubbed_container { ($(#[$m:meta])* fn $n:ident() $b:block) => { kproof! {
    $(#[$m])*
    #[kani::stub(crate::preflate_container::recompress_deflate_stream, stub_recompress_err)]
    #[kani::stub(crate::idat_parse::IdatContents::read_from_bytestream, stub_idat_read_err)]
    fn $n() $b
} } }
stubbed_container! {
    /// K01c: literal chunks written by write_chunk_block are read back verbatim by recreated_zlib_chunks
    fn k01c_literal_chunks_rt() {
        literal_chunks_rt::<0, 0>();
        literal_chunks_rt::<1, 1>();
        literal_chunks_rt::<3, 1>();
        literal_chunks_rt::<5, 2>();
    }
}

fn fragmented_io<const FLEN: usize, const SPLIT: usize>() {
        let file: [u8; 6] = kani::any();
        let (flen, split) = (FLEN, SPLIT);
        let c = literal_container(&file, flen, split);
        assert!(c.len() <= FR_N);
        let mut data = [0u8; FR_N];
        let mut i = 0;
        while i < FR_N { if i < c.len() { data[i] = c[i]; } i += 1; }
        let mut src = FragRead { data, len: c.len(), pos: 0, fail_at: FR_N + 1, intr: 2, failed: false };
        let mut dst = FragWrite { out: [0; FR_N], n: 0, fail_at: FR_N + 1, failed: false };
        let r = recreated_zlib_chunks(&mut src, &mut dst);
        assert!(r.is_ok(), "fragmented I/O without errors must succeed");
        assert!(dst.n == flen, "output length depends on fragmentation");
        let mut i = 0;
        while i < 6 { if i < flen { assert!(dst.out[i] == file[i], "output depends on fragmentation"); } i += 1; }
        kani::cover!(src.intr == 0, "interrupts used up");
        core::mem::forget(c); core::mem::forget(r);
}
stubbed_container! {
    /// K13a: same output however the source fragments reads (incl. Interrupted) and the destination
    /// accepts partial writes; no injected hard error.
    fn k13a_fragmented_io() { fragmented_io::<3, 1>(); }
}
stubbed_container! { fn k13a_fragmented_io_1chunk() { fragmented_io::<2, 2>(); } }

fn io_faults<const FLEN: usize, const SPLIT: usize>() {
        let file: [u8; 6] = kani::any();
        let (flen, split) = (FLEN, SPLIT);
        let c = literal_container(&file, flen, split);
        let mut data = [0u8; FR_N];
        let mut i = 0;
        while i < FR_N { if i < c.len() { data[i] = c[i]; } i += 1; }
        let sf: usize = kani::any();
        let df: usize = kani::any();
        kani::assume(sf <= FR_N + 1 && df <= FR_N + 1);
        let mut src = FragRead { data, len: c.len(), pos: 0, fail_at: sf, intr: 1, failed: false };
        let mut dst = FragWrite { out: [0; FR_N], n: 0, fail_at: df, failed: false };
        let r = recreated_zlib_chunks(&mut src, &mut dst);
        if src.failed || dst.failed {
            assert!(r.is_err(), "an I/O error was swallowed");
        } else {
            assert!(r.is_ok());
            assert!(dst.n == flen);
        }
        assert!(dst.n <= flen);
        let mut i = 0;
        while i < 6 { if i < dst.n { assert!(dst.out[i] == file[i], "bytes written before the failure are not a prefix of the file"); } i += 1; }
        kani::cover!(src.failed && dst.n > 0, "source failed after some output");
        kani::cover!(dst.failed && dst.n > 0, "destination failed mid-way");
        kani::cover!(!src.failed && !dst.failed, "no fault");
        core::mem::forget(c); core::mem::forget(r);
}
stubbed_container! {
    /// K13b: a hard I/O error at any source or destination offset gives Err (no panic) and the
    /// bytes accepted by the destination are a prefix of the original file.
    fn k13b_io_faults() { io_faults::<3, 1>(); }
}
stubbed_container! { fn k13b_io_faults_1chunk() { io_faults::<2, 2>(); } }

// ---------------------------------------------------------------------------
// C11: zstd wrappers over the framing model (shims/zstd)
// ---------------------------------------------------------------------------
kproof! {
    /// K11a: decompress_zstd(compress_zstd(F), cap) == F when cap >= expanded size, Err when smaller;
    /// the real scanner and container code run on F (<= 3 bytes: literal-only containers).
    #[kani::stub(crate::preflate_container::recompress_deflate_stream, stub_recompress_err)]
    #[kani::stub(crate::preflate_container::decompress_deflate_stream, stub_decompress_reject)]
    #[kani::stub(crate::idat_parse::IdatContents::read_from_bytestream, stub_idat_read_err)]
    #[kani::stub(crate::scan_deflate::skip_gzip_header, stub_gzip_err)]
    #[kani::stub(crate::scan_deflate::parse_zip_stream, stub_zip_err)]
    #[kani::stub(crate::idat_parse::parse_idat, stub_idat_err)]
    fn k11a_zstd_roundtrip() { zstd_roundtrip::<0>(); zstd_roundtrip::<1>(); zstd_roundtrip::<3>(); }
}
fn zstd_roundtrip<const FLEN: usize>() {
    {
        let file: [u8; 3] = kani::any();
        let flen: usize = FLEN;
        let z = compress_zstd(&file[..flen], 0);
        assert!(z.is_ok());
        let z = z.unwrap();
        // expanded size under the model = frame content length
        let expanded = z.len() - 8;
        let cap: usize = kani::any();
        kani::assume(cap <= 16);
        let r = decompress_zstd(&z, cap);
        if cap >= expanded {
            assert!(r.is_ok(), "sufficient capacity rejected");
            let out = r.unwrap();
            assert!(out.len() == flen);
            let mut i = 0;
            while i < 3 { if i < flen { assert!(out[i] == file[i]); } i += 1; }
            core::mem::forget(out);
        } else {
            assert!(r.is_err(), "undersized capacity must be an error, never truncated data");
            core::mem::forget(r);
        }
        kani::cover!(cap == expanded, "exact capacity");
        kani::cover!(cap + 1 == expanded, "one byte short");
        core::mem::forget(z);
    }
}
kproof! {
    /// K11b: input that is not a frame is an Err, never a panic
    #[kani::stub(crate::preflate_container::recompress_deflate_stream, stub_recompress_err)]
    fn k11b_zstd_not_a_frame() {
        let data: [u8; 10] = kani::any();
        let n: usize = kani::any();
        kani::assume(n <= 10);
        let cap: usize = kani::any();
        kani::assume(cap <= 16);
        let well_formed = n >= 8 && data[0..4] == zstd::bulk::MAGIC
            && u32::from_le_bytes([data[4], data[5], data[6], data[7]]) as usize == n - 8;
        kani::assume(!well_formed);
        let r = decompress_zstd(&data[..n], cap);
        assert!(r.is_err(), "input that is not a frame must be an error");
        kani::cover!(n == 10 && data[0] == 0x28, "full-length non-frame");
        core::mem::forget(r);
    }
}

kproof! {
    /// K04i: container byte layout equals the reference build's: varints, literal chunk framing, IDAT descriptor
    fn k04i_container_bytes_equiv() {
        let v: u32 = kani::any();
        let (a, an) = super::verif_export::varint_bytes(v);
        let (b, bn) = preflate_ref::preflate_container::verif_export::varint_bytes(v);
        assert!(an == bn && a == b, "varint encoding differs from the reference build");
        let d: [u8; 3] = kani::any();
        let n: usize = kani::any();
        kani::assume(n <= 3);
        let (c, cn) = super::verif_export::literal_chunk_bytes(&d[..n]);
        let (e, en) = preflate_ref::preflate_container::verif_export::literal_chunk_bytes(&d[..n]);
        assert!(cn == en && c == e, "literal chunk framing differs from the reference build");
        let s0: u32 = kani::any(); let s1: u32 = kani::any(); let k: usize = kani::any();
        kani::assume(k <= 2 && s0 < (1 << 28) && s1 < (1 << 28));
        let hdr: [u8; 2] = kani::any(); let ad: u32 = kani::any();
        let (f, fnn) = crate::idat_parse::verif_export::idat_desc_bytes(s0, s1, k, hdr, ad);
        let (g, gn) = preflate_ref::idat_parse::verif_export::idat_desc_bytes(s0, s1, k, hdr, ad);
        assert!(fnn == gn && f == g, "IDAT descriptor layout differs from the reference build");
        kani::cover!(an == 5 && k == 2, "five-byte varint, two chunks");
    }
}
