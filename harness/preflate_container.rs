//! Harnesses that are children of `preflate_container` (see private items).
#![allow(unused_imports, dead_code)]
use super::*;
use crate::verif_common::*;

kproof! {
    /// K01b: read_varint(write_varint(v)) == v for every u32, buffer fully consumed.
    fn k01b_varint_rt() {
        let v: u32 = kani::any();
        let mut buf: Vec<u8> = Vec::new();
        write_varint(&mut buf, v).unwrap();
        assert!(buf.len() >= 1 && buf.len() <= 5);
        let mut s = &buf[..];
        let r = read_varint(&mut s).unwrap();
        assert_eq!(r, v);
        assert!(s.is_empty());
        kani::cover!(buf.len() == 5, "five-byte varint");
        kani::cover!(buf.len() == 1, "one-byte varint");
    }
}
