//! Harnesses that are children of `preflate_container` (see private items).
#![allow(unused_imports, dead_code)]
use super::*;
use crate::verif_common::*;

kproof! {
    /// K01b: read_varint(write_varint(v)) == v for every u32, buffer fully consumed.
    fn k01b_varint_rt() {
        let v: u32 = kani::any();
        let mut buf: Vec<u8> = Vec::new();
        write_varint(&mut buf, v).unwrap();
        assert!(buf.len() >= 1 && buf.len() <= 5);
        let mut s = &buf[..];
        let r = read_varint(&mut s).unwrap();
        assert_eq!(r, v);
        assert!(s.is_empty());
        kani::cover!(buf.len() == 5, "five-byte varint");
        kani::cover!(buf.len() == 1, "one-byte varint");
    }
}

/// Literal-only containers never reach the deflate arm of read_chunk_block, but symbolic execution
/// explores it (the tag byte is read back from memory): cut it with a stub that fails.
pub fn stub_recompress_err(_p: &[u8], _c: &[u8]) -> Result<Vec<u8>, PreflateError> {
    Err(PreflateError::new(ExitCode::RecompressFailed, ""))
}
/// analysis stub for files in which no stream is accepted (what holds for every file of <= 3 bytes
/// in the real code as well: parse needs >= 1024 bytes of plaintext to be accepted by the scanner)
pub fn stub_decompress_reject(_d: &[u8], _v: bool, _l: u32) -> Result<DecompressResult, PreflateError> {
    Err(PreflateError::new(ExitCode::InvalidDeflate, ""))
}

// ---------------------------------------------------------------------------
// C13 seams: fragmenting / failing reader and writer
// ---------------------------------------------------------------------------
pub const FR_N: usize = 40;
/// Source over a fixed buffer whose every `read` returns a solver-chosen 1..=want bytes,
/// may report ErrorKind::Interrupted (at most `intr` times), and fails hard at offset `fail_at`.
pub struct FragRead {
    pub data: [u8; FR_N],
    pub len: usize,
    pub pos: usize,
    pub fail_at: usize, // >= len+1 means never
    pub step: usize,    // bytes handed out per read call (concrete fragmentation pattern)
    pub failed: bool,
}
impl Read for FragRead {
    fn read(&mut self, buf: &mut [u8]) -> std::io::Result<usize> {
        if buf.is_empty() { return Ok(0); }
        if self.pos >= self.fail_at {
            self.failed = true;
            return Err(std::io::Error::from(std::io::ErrorKind::BrokenPipe));
        }
        // ErrorKind::Interrupted is NOT injected: std's retry loop drops the error inside the loop and
        // io::Error's drop glue (bit-packed repr, recursive through Box<dyn Error>) makes symbolic
        // execution explode (measured: 12 GB in 400 s for a 2-byte file).  Outside the claim.
        if self.pos >= self.len { return Ok(0); }
        let avail = core::cmp::min(core::cmp::min(buf.len(), self.len - self.pos), self.fail_at - self.pos);
        // fragmentation pattern is CONCRETE per harness instance (1, 2 or all bytes per call): a solver-chosen
        // count per call ran out of memory (14 GB in 380 s for a 2-byte file); fault offsets stay symbolic
        let k: usize = core::cmp::min(avail, self.step);
        let mut i = 0;
        while i < k { buf[i] = self.data[self.pos + i]; i += 1; }
        self.pos += k;
        Ok(k)
    }
    /// read_exact with std's semantics (loop over `read`, UnexpectedEof on a zero read) but without the
    /// ErrorKind::Interrupted retry arm, whose dropped io::Error makes symbolic execution explode
    fn read_exact(&mut self, mut buf: &mut [u8]) -> std::io::Result<()> {
        while !buf.is_empty() {
            let n = self.read(buf)?;
            if n == 0 {
                return Err(std::io::Error::from(std::io::ErrorKind::UnexpectedEof));
            }
            buf = &mut buf[n..];
        }
        Ok(())
    }
}
/// Destination that accepts a solver-chosen 1..=n bytes per write and fails at offset `fail_at`.
pub struct FragWrite {
    pub out: [u8; FR_N],
    pub n: usize,
    pub fail_at: usize,
    pub step: usize,
    pub failed: bool,
}
impl Write for FragWrite {
    fn write(&mut self, buf: &[u8]) -> std::io::Result<usize> {
        if buf.is_empty() { return Ok(0); }
        if self.n >= self.fail_at {
            self.failed = true;
            return Err(std::io::Error::from(std::io::ErrorKind::BrokenPipe));
        }
        let room = core::cmp::min(buf.len(), self.fail_at - self.n);
        let k: usize = core::cmp::min(room, self.step);
        let mut i = 0;
        while i < k {
            assert!(self.n + i < FR_N, "more bytes written than the original file holds");
            self.out[self.n + i] = buf[i];
            i += 1;
        }
        self.n += k;
        Ok(k)
    }
    fn flush(&mut self) -> std::io::Result<()> { Ok(()) }
    /// write_all with std's semantics minus the Interrupted retry arm (see FragRead::read_exact)
    fn write_all(&mut self, mut buf: &[u8]) -> std::io::Result<()> {
        while !buf.is_empty() {
            let n = self.write(buf)?;
            if n == 0 {
                return Err(std::io::Error::from(std::io::ErrorKind::WriteZero));
            }
            buf = &buf[n..];
        }
        Ok(())
    }
}

/// CONTRACT stand-ins for the container layer in the zstd / C-ABI plumbing lemmas (C11, C12): the container
/// round trip itself is C01's lemma (k01c, k13*, k01a*).  Identity container: expand = copy, recreate = copy
/// through the destination's own write_all (so a too-small Cursor<&mut [u8]> fails exactly as it would).
pub fn contract_expand_identity(compressed_data: &[u8], _loglevel: u32) -> std::result::Result<Vec<u8>, PreflateError> {
    Ok(compressed_data.to_vec())
}
pub fn contract_recreate_identity<R: Read, W: Write>(source: &mut R, destination: &mut W) -> std::result::Result<(), PreflateError> {
    let mut buf = [0u8; 16];
    let n = source.read(&mut buf)?; // in-memory sources hand out everything that is left (<= 16 bytes in these harnesses)
    assert!(n < 16, "harness bound: identity container holds fewer than 16 bytes");
    destination.write_all(&buf[..n])?;
    Ok(())
}
/// for inputs that are not a frame the container reader must never be reached
pub fn stub_recreate_unreachable<R: Read, W: Write>(_s: &mut R, _d: &mut W) -> std::result::Result<(), PreflateError> {
    assert!(false, "recreated_zlib_chunks reached although the input is not a zstd frame");
    Ok(())
}
/// PNG arm of read_chunk_block is unreachable for literal-only containers; cut it for symbolic execution
pub fn stub_idat_read_err<R: Read>(_r: &mut R) -> std::io::Result<IdatContents> {
    Err(std::io::Error::from(std::io::ErrorKind::InvalidData))
}
/// files of <= 3 bytes cannot hold a gzip (>= 10 bytes), zip (>= 30) or IDAT (>= 12) header: the three
/// parsers return Err there (discharged by k01_gzip_hdr_16, k01_zip_hdr_34, k01e_idat_total_27)
pub fn stub_gzip_err<R: Read>(_r: &mut R) -> crate::preflate_error::Result<()> { Err(PreflateError::new(ExitCode::InvalidDeflate, "")) }
pub fn stub_zip_err(_c: &[u8]) -> crate::preflate_error::Result<(usize, DecompressResult)> { Err(PreflateError::new(ExitCode::InvalidDeflate, "")) }
pub fn stub_idat_err(_c: &[u8], _l: u32) -> crate::preflate_error::Result<(IdatContents, Vec<u8>)> { Err(PreflateError::new(ExitCode::InvalidIDat, "")) }

/// container of <= 2 literal chunks built with the real writer from a symbolic file
fn literal_container(file: &[u8; 6], flen: usize, split: usize) -> Vec<u8> {
    let mut c: Vec<u8> = Vec::with_capacity(16);
    c.push(COMPRESSED_WRAPPER_VERSION_1);
    write_chunk_block(BlockChunk::Literal(split), &file[..flen], &mut c).unwrap();
    if split < flen {
        write_chunk_block(BlockChunk::Literal(flen - split), &file[split..flen], &mut c).unwrap();
    }
    c
}
// Structure (file length, split point) is CONCRETE per harness instance, content bytes symbolic:
// with symbolic lengths every Vec write site may reallocate and CBMC's pointer value sets explode
// (measured: no result in 15 min / > 14 GB); concrete structure keeps tags and lengths constant-folded.

fn literal_chunks_rt<const FLEN: usize, const SPLIT: usize>() {
    let file: [u8; 6] = kani::any();
    let c = literal_container(&file, FLEN, SPLIT);
    let mut src = &c[..];
    let mut out: Vec<u8> = Vec::with_capacity(8);
    let r = recreated_zlib_chunks(&mut src, &mut out);
    assert!(r.is_ok());
    assert!(out.len() == FLEN);
    let mut i = 0;
    while i < 6 { if i < FLEN { assert!(out[i] == file[i]); } i += 1; }
    kani::cover!(true, "reached");
    core::mem::forget(out); core::mem::forget(c);
}
macro_rules! stubbed_container { ($(#[$m:meta])* fn $n:ident() $b:block) => { kproof! {
    $(#[$m])*
    #[kani::stub(crate::preflate_container::recompress_deflate_stream, stub_recompress_err)]
    #[kani::stub(crate::idat_parse::IdatContents::read_from_bytestream, stub_idat_read_err)]
    fn $n() $b
} } }
stubbed_container! {
    /// K01c: literal chunks written by write_chunk_block are read back verbatim by recreated_zlib_chunks
    fn k01c_literal_chunks_rt() {
        literal_chunks_rt::<0, 0>();
        literal_chunks_rt::<1, 1>();
        literal_chunks_rt::<3, 1>();
        literal_chunks_rt::<5, 2>();
    }
}

fn fragmented_io<const FLEN: usize, const SPLIT: usize, const RSTEP: usize, const WSTEP: usize>() {
        let file: [u8; 6] = kani::any();
        let (flen, split) = (FLEN, SPLIT);
        let c = literal_container(&file, flen, split);
        assert!(c.len() <= FR_N);
        let mut data = [0u8; FR_N];
        let mut i = 0;
        while i < FR_N { if i < c.len() { data[i] = c[i]; } i += 1; }
        let mut src = FragRead { data, len: c.len(), pos: 0, fail_at: FR_N + 1, step: RSTEP, failed: false };
        let mut dst = FragWrite { out: [0; FR_N], n: 0, fail_at: FR_N + 1, step: WSTEP, failed: false };
        let r = recreated_zlib_chunks(&mut src, &mut dst);
        assert!(r.is_ok(), "fragmented I/O without errors must succeed");
        assert!(dst.n == flen, "output length depends on fragmentation");
        let mut i = 0;
        while i < 6 { if i < flen { assert!(dst.out[i] == file[i], "output depends on fragmentation"); } i += 1; }
        kani::cover!(src.pos == src.len && dst.n == flen, "everything transferred");
        core::mem::forget(c); core::mem::forget(r);
}
stubbed_container! {
    /// K13a: same output however the source fragments reads (incl. Interrupted) and the destination
    /// accepts partial writes; no injected hard error.
    fn k13a_fragmented_io() {
        fragmented_io::<3, 1, 1, 1>();
        fragmented_io::<3, 1, 2, 1>();
        fragmented_io::<3, 1, 1, { usize::MAX }>();
        fragmented_io::<4, 4, 2, 2>();
    }
}

fn io_faults<const FLEN: usize, const SPLIT: usize, const RSTEP: usize, const WSTEP: usize, const SF: usize, const DF: usize>() {
        let file: [u8; 6] = kani::any();
        let (flen, split) = (FLEN, SPLIT);
        let c = literal_container(&file, flen, split);
        let mut data = [0u8; FR_N];
        let mut i = 0;
        while i < FR_N { if i < c.len() { data[i] = c[i]; } i += 1; }
        // fault offsets are concrete per instance (symbolic offsets made every transfer length symbolic: out of memory)
        let (sf, df) = (SF, DF);
        let mut src = FragRead { data, len: c.len(), pos: 0, fail_at: sf, step: RSTEP, failed: false };
        let mut dst = FragWrite { out: [0; FR_N], n: 0, fail_at: df, step: WSTEP, failed: false };
        let r = recreated_zlib_chunks(&mut src, &mut dst);
        if src.failed || dst.failed {
            assert!(r.is_err(), "an I/O error was swallowed");
        } else {
            assert!(r.is_ok());
            assert!(dst.n == flen);
        }
        assert!(dst.n <= flen);
        let mut i = 0;
        while i < 6 { if i < dst.n { assert!(dst.out[i] == file[i], "bytes written before the failure are not a prefix of the file"); } i += 1; }
        kani::cover!(true, "reached");
        core::mem::forget(c); core::mem::forget(r);
}
stubbed_container! {
    /// K13b: a hard I/O error at any source or destination offset gives Err (no panic) and the
    /// bytes accepted by the destination are a prefix of the original file.
    fn k13b_io_faults() {
        // container of the 3-byte file in two chunks is 8 bytes: [ver, 0, 1, a, 0, 2, b, c]
        io_faults::<3, 1, 1, 1, 0, 99>();
        io_faults::<3, 1, 1, 1, 1, 99>();
        io_faults::<3, 1, 1, 1, 2, 99>();
        io_faults::<3, 1, 1, 1, 3, 99>();
        io_faults::<3, 1, 1, 1, 4, 99>();
        io_faults::<3, 1, 1, 1, 6, 99>();
        io_faults::<3, 1, 1, 1, 7, 99>();
        io_faults::<3, 1, 1, 1, 8, 99>();
    }
}
stubbed_container! {
    /// K13b-dst: destination faults at every offset; bulk source
    fn k13b_io_faults_dst() {
        io_faults::<3, 1, { usize::MAX }, 1, 99, 0>();
        io_faults::<3, 1, { usize::MAX }, 1, 99, 1>();
        io_faults::<3, 1, { usize::MAX }, { usize::MAX }, 99, 2>();
        io_faults::<3, 1, 1, 1, 99, 3>();
        io_faults::<3, 1, 2, { usize::MAX }, 5, 1>();
    }
}

// ---------------------------------------------------------------------------
// C11: zstd wrappers over the framing model (shims/zstd)
// ---------------------------------------------------------------------------
kproof! {
    /// K11a: decompress_zstd(compress_zstd(F), cap) == F when cap >= expanded size, Err when smaller (never a
    /// truncated Ok, never a panic).  Plumbing lemma: container layer = identity contract (see above).
    #[kani::stub(crate::preflate_container::expand_zlib_chunks, contract_expand_identity)]
    #[kani::stub(crate::preflate_container::recreated_zlib_chunks, contract_recreate_identity)]
    fn k11a_zstd_roundtrip() {
        zstd_rt::<0>(); zstd_rt::<1>();
        let (c, e) = zstd_rt::<4>();
        kani::cover!(c + 1 == e, "one byte short");
        kani::cover!(c == e, "exact capacity");
    }
}
fn zstd_rt<const FLEN: usize>() -> (usize, usize) {
    {
        let file: [u8; 4] = kani::any();
        let flen: usize = FLEN; // concrete length per instance (symbolic lengths: 12 GB in 2 min), symbolic content and capacity
        let z = compress_zstd(&file[..flen], 0);
        assert!(z.is_ok());
        let z = z.unwrap();
        let expanded = flen; // identity container
        assert!(z.len() == expanded + 8);
        let cap: usize = kani::any();
        kani::assume(cap <= 8);
        let r = decompress_zstd(&z, cap);
        if cap >= expanded {
            assert!(r.is_ok(), "sufficient capacity rejected");
            let out = r.unwrap();
            assert!(out.len() == flen);
            let mut i = 0;
            while i < 4 { if i < flen { assert!(out[i] == file[i]); } i += 1; }
            core::mem::forget(out);
        } else {
            assert!(r.is_err(), "undersized capacity must be an error, never truncated data");
            core::mem::forget(r);
        }
        core::mem::forget(z);
        (cap, expanded)
    }
}
kproof! {
    /// K11b: input that is not a frame is an Err, never a panic
    #[kani::stub(crate::preflate_container::recompress_deflate_stream, stub_recompress_err)]
    #[kani::stub(crate::preflate_container::recreated_zlib_chunks, stub_recreate_unreachable)]
    fn k11b_zstd_not_a_frame() {
        let data: [u8; 10] = kani::any();
        let n: usize = kani::any();
        kani::assume(n <= 10);
        let cap: usize = kani::any();
        kani::assume(cap <= 16);
        let well_formed = n >= 8 && data[0..4] == zstd::bulk::MAGIC
            && u32::from_le_bytes([data[4], data[5], data[6], data[7]]) as usize == n - 8;
        kani::assume(!well_formed);
        let r = decompress_zstd(&data[..n], cap);
        assert!(r.is_err(), "input that is not a frame must be an error");
        kani::cover!(n == 10 && data[0] == 0x28, "full-length non-frame");
        core::mem::forget(r);
    }
}

kproof! {
    /// K04i: container byte layout equals the reference build's: varints, literal chunk framing, IDAT descriptor
    fn k04i_container_bytes_equiv() {
        let v: u32 = kani::any();
        let (a, an) = super::verif_export::varint_bytes(v);
        let (b, bn) = preflate_ref::preflate_container::verif_export::varint_bytes(v);
        assert!(an == bn && a == b, "varint encoding differs from the reference build");
        let d: [u8; 3] = kani::any();
        let n: usize = kani::any();
        kani::assume(n <= 3);
        let (c, cn) = super::verif_export::literal_chunk_bytes(&d[..n]);
        let (e, en) = preflate_ref::preflate_container::verif_export::literal_chunk_bytes(&d[..n]);
        assert!(cn == en && c == e, "literal chunk framing differs from the reference build");
        let s0: u32 = kani::any(); let s1: u32 = kani::any(); let k: usize = kani::any();
        kani::assume(k <= 2 && s0 < (1 << 28) && s1 < (1 << 28));
        let hdr: [u8; 2] = kani::any(); let ad: u32 = kani::any();
        let (f, fnn) = crate::idat_parse::verif_export::idat_desc_bytes(s0, s1, k, hdr, ad);
        let (g, gn) = preflate_ref::idat_parse::verif_export::idat_desc_bytes(s0, s1, k, hdr, ad);
        assert!(fnn == gn && f == g, "IDAT descriptor layout differs from the reference build");
        kani::cover!(an == 5 && k == 2, "five-byte varint, two chunks");
    }
}

stubbed_container! {
    /// thorough: larger literal containers
    fn k01c_literal_chunks_rt_more() {
        literal_chunks_rt::<6, 3>();
        literal_chunks_rt::<6, 6>();
        literal_chunks_rt::<2, 0>();
    }
}
stubbed_container! {
    /// thorough: more fragmentation patterns, 5-byte file in two chunks
    fn k13a_fragmented_io_more() {
        fragmented_io::<5, 2, 1, 2>();
        fragmented_io::<5, 2, 2, 1>();
        fragmented_io::<5, 2, 3, { usize::MAX }>();
        fragmented_io::<5, 5, 1, 1>();
    }
}
stubbed_container! {
    /// thorough: faults in a 5-byte / two-chunk container (10 bytes): source offsets 5, 9, 10; destination 4
    fn k13b_io_faults_more() {
        io_faults::<5, 2, 1, 1, 5, 99>();
        io_faults::<5, 2, 2, 2, 9, 99>();
        io_faults::<5, 2, 1, 1, 10, 99>();
        io_faults::<5, 2, { usize::MAX }, 1, 99, 4>();
    }
}

// ---------------------------------------------------------------------------
// chunk framing for deflate / PNG chunks (C01): writer/reader symmetry of tag, varint lengths and payload
// slices, with the reconstruction itself replaced by a recording stand-in
// ---------------------------------------------------------------------------
/// stand-in for recompress_deflate_stream: returns its two arguments, length-prefixed, so that the harness
/// can see exactly which slices the container reader handed to the reconstruction
pub fn stub_recompress_echo(plain: &[u8], corr: &[u8]) -> Result<Vec<u8>, PreflateError> {
    let mut v: Vec<u8> = Vec::with_capacity(16);
    v.push(plain.len() as u8);
    v.push(corr.len() as u8);
    v.extend_from_slice(plain);
    v.extend_from_slice(corr);
    Ok(v)
}
fn dummy_result(plain: &[u8], corr: &[u8], cs: usize) -> DecompressResult {
    DecompressResult {
        plain_text: plain.to_vec(),
        prediction_corrections: corr.to_vec(),
        compressed_size: cs,
        parameters: PreflateParameters { huff_strategy: crate::preflate_parameter_estimator::PreflateHuffStrategy::Dynamic,
            predictor: nodict_predictor_params(crate::preflate_parameter_estimator::PreflateStrategy::Store) },
    }
}
kproof! {
    /// K01f: a DeflateStream chunk written by write_chunk_block is read back by read_chunk_block such that the
    /// reconstruction receives exactly the plaintext and the corrections that were stored; write_chunk_block
    /// reports the compressed size as the number of file bytes covered
    #[kani::stub(crate::preflate_container::recompress_deflate_stream, stub_recompress_echo)]
    #[kani::stub(crate::idat_parse::IdatContents::read_from_bytestream, stub_idat_read_err)]
    fn k01f_deflate_chunk_framing() {
        let plain: [u8; 2] = kani::any();
        let corr: [u8; 3] = kani::any();
        let cs: usize = kani::any();
        kani::assume(cs >= 1 && cs < 1000);
        let mut c: Vec<u8> = Vec::with_capacity(24);
        let covered = write_chunk_block(BlockChunk::DeflateStream(dummy_result(&plain, &corr, cs)), &[], &mut c).unwrap();
        assert!(covered == cs, "chunk writer reports a wrong number of covered file bytes");
        let mut src = &c[..];
        let mut out: Vec<u8> = Vec::with_capacity(16);
        let more = read_chunk_block(&mut src, &mut out).unwrap();
        assert!(more && src.is_empty());
        assert!(out.len() == 7 && out[0] == 2 && out[1] == 3);
        assert!(out[2] == plain[0] && out[3] == plain[1] && out[4] == corr[0] && out[5] == corr[1] && out[6] == corr[2], "reconstruction received different slices than were stored");
        kani::cover!(true, "reached");
        core::mem::forget(out); core::mem::forget(c);
    }
}
kproof! {
    /// K01g: the same for a PNG chunk: IDAT descriptor, plaintext and corrections survive the framing and the real
    /// recreate_idat re-chunks what the reconstruction returned
    #[kani::stub(crate::preflate_container::recompress_deflate_stream, stub_recompress_echo)]
    fn k01g_idat_chunk_framing() {
        crc32fast::verif_set_cheap(true);
        let plain: [u8; 1] = kani::any();
        let corr: [u8; 2] = kani::any();
        // echo returns 2 + 1 + 2 = 5 bytes; zlib header 2 + Adler 4 -> 11 payload bytes in chunks of 7 + 4
        let idat = IdatContents { chunk_sizes: vec![7, 4], zlib_header: kani::any(), total_chunk_length: 7 + 4 + 24, addler32: kani::any() };
        let hdr = idat.zlib_header; let ad = idat.addler32;
        let mut c: Vec<u8> = Vec::with_capacity(32);
        let covered = write_chunk_block(BlockChunk::IDATDeflate(idat, dummy_result(&plain, &corr, 5)), &[], &mut c).unwrap();
        assert!(covered == 7 + 4 + 24, "PNG chunk writer must cover total_chunk_length file bytes");
        let mut src = &c[..];
        let mut out: Vec<u8> = Vec::with_capacity(48);
        let more = read_chunk_block(&mut src, &mut out).unwrap();
        assert!(more && src.is_empty());
        assert!(out.len() == 35);
        // first chunk: length 7, "IDAT", zlib header, then the echoed bytes
        assert!(out[0..4] == [0, 0, 0, 7] && &out[4..8] == b"IDAT" && out[8] == hdr[0] && out[9] == hdr[1]);
        assert!(out[10] == 1 && out[11] == 2 && out[12] == plain[0] && out[13] == corr[0] && out[14] == corr[1], "reconstruction received different slices than were stored");
        // second chunk: length 4, "IDAT", the Adler-32
        assert!(out[19..23] == [0, 0, 0, 4] && &out[23..27] == b"IDAT" && out[27..31] == ad.to_be_bytes());
        kani::cover!(true, "reached");
        core::mem::forget(out); core::mem::forget(c);
    }
}
