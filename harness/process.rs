//! child of `process`: block structure / EOF signalling mirror (C02, C08), parse_deflate cursor (C03)
#![allow(unused_imports, dead_code)]
use super::*;
use crate::preflate_parameter_estimator::{PreflateHuffStrategy, PreflateStrategy};
use crate::preflate_token::PreflateToken;
use crate::verif_common::*;

const MAXB: usize = 3;

kproof_vp! {
    /// K02f: encode_mispredictions -> decode_mispredictions reproduces the bytes the real writer emits
    /// for the original blocks: block types, stored lengths/padding, TokenCount signalling under a
    /// symbolic max_token_count, empty blocks, EOF flags, final padding.  No dictionary (literal-only).
    #[kani::stub(crate::huffman_encoding::HuffmanWriter::start_fixed_huffman_table, crate::huffman_encoding::verif_harness::stub_start_fixed)]
    fn k02f_block_structure() {
        let nb: usize = kani::any();
        kani::assume(nb >= 1 && nb <= MAXB);
        let mut blocks: Vec<PreflateTokenBlock> = Vec::new();
        let mut plain: Vec<u8> = Vec::new();
        let mut b = 0;
        while b < MAXB {
            if b < nb {
                let stored: bool = kani::any();
                let n: usize = kani::any();
                kani::assume(n <= 2);
                let mut blk = PreflateTokenBlock::new(if stored { BlockType::Stored } else { BlockType::StaticHuff });
                if stored { blk.padding_bits = kani::any(); kani::assume(blk.padding_bits < 32); }
                let mut i = 0;
                while i < 2 {
                    if i < n {
                        let c: u8 = kani::any();
                        plain.push(c);
                        if stored { blk.uncompressed.push(c); } else { blk.add_literal(c); }
                    }
                    i += 1;
                }
                blocks.push(blk);
            }
            b += 1;
        }
        let eof_padding: u8 = kani::any();
        // expected bytes: the real writer on the original blocks
        let mut w = DeflateWriter::new();
        let mut b = 0;
        while b < MAXB { if b < nb { w.encode_block(&blocks[b], b == nb - 1).unwrap(); } b += 1; }
        w.flush_with_padding(eof_padding);
        let expected = w.detach_output();

        let mut pred = nodict_predictor_params(PreflateStrategy::HuffOnly);
        pred.max_token_count = kani::any();
        kani::assume(pred.max_token_count >= 1);
        let params = PreflateParameters { huff_strategy: PreflateHuffStrategy::Static, predictor: pred };
        let contents = DeflateContents { compressed_size: expected.len(), plain_text: plain, blocks, eof_padding };
        let mut rec = Rec::new();
        let r = encode_mispredictions(&contents, &params, &mut rec);
        assert!(r.is_ok());
        let d = decode_mispredictions(&params, PreflateInput::new(&contents.plain_text), &mut rec);
        assert!(d.is_ok(), "decode_mispredictions fails on corrections encode_mispredictions produced");
        let (out, blocks2) = d.unwrap();
        assert!(blocks2.len() == nb, "number of blocks changed");
        assert!(out.len() == expected.len(), "reconstructed length differs");
        let mut i = 0;
        while i < expected.len() { assert!(out[i] == expected[i], "reconstructed bytes differ"); i += 1; }
        assert!(rec.fully_consumed());
        kani::cover!(nb == 3 && contents.blocks[0].tokens.len() == 0 && contents.blocks[0].block_type == BlockType::StaticHuff, "empty fixed block first");
        kani::cover!(nb == 3 && contents.blocks[2].block_type == BlockType::Stored && contents.blocks[2].uncompressed.len() == 0, "empty stored block last");
        kani::cover!(pred.max_token_count == 1 && nb >= 2, "block size limit 1");
        core::mem::forget(blocks2); core::mem::forget(contents); core::mem::forget(out); core::mem::forget(expected);
    }
}

kproof! {
    /// K03e: parse_deflate's compressed_size is the byte cursor after the last block's padding and the
    /// parse depends only on those bytes: two inputs that agree on the consumed prefix give the same result.
    fn k03e_consumed_prefix() {
        const N: usize = 8;
        let mut a: [u8; N] = kani::any();
        a[0] = 0x01; // one final stored block; concrete header bits keep symbolic execution out of the Huffman arms
                     // (padding-bit variation is covered by k07a_stored_rewrite_*)
        let r = parse_deflate(&a[..], 0);
        kani::assume(r.is_ok());
        let c = r.unwrap();
        assert!(c.compressed_size >= 5 && c.compressed_size <= N);
        assert!(c.compressed_size == 5 + c.plain_text.len());
        // replace everything after the consumed prefix
        let mut b: [u8; N] = kani::any();
        b[0] = 0x01;
        let mut i = 1;
        while i < N { if i < c.compressed_size { b[i] = a[i]; } i += 1; }
        let r2 = parse_deflate(&b[..], 0);
        assert!(r2.is_ok(), "bytes after compressed_size influence acceptance");
        let c2 = r2.unwrap();
        assert!(c2.compressed_size == c.compressed_size && c2.plain_text.len() == c.plain_text.len() && c2.eof_padding == c.eof_padding);
        let mut i = 0;
        while i < N { if i < c.plain_text.len() { assert!(c.plain_text[i] == c2.plain_text[i]); } i += 1; }
        // truncating to exactly the consumed prefix also parses identically
        let r3 = parse_deflate(&a[..c.compressed_size], 0);
        assert!(r3.is_ok());
        kani::cover!(c.compressed_size == 7, "two payload bytes, one trailing byte ignored");
        core::mem::forget(c); core::mem::forget(c2); core::mem::forget(r3);
    }
}
