//! child of `process`: block structure / EOF signalling mirror (C02, C08), parse_deflate cursor (C03)
#![allow(unused_imports, dead_code)]
use super::*;
use crate::preflate_parameter_estimator::{PreflateHuffStrategy, PreflateStrategy};
use crate::preflate_token::PreflateToken;
use crate::verif_common::*;

const MAXB: usize = 3;

kproof_vp! {
    /// K02f: encode_mispredictions -> decode_mispredictions reproduces the bytes the real writer emits
    /// for the original blocks: block types, stored lengths/padding, TokenCount signalling under a
    /// symbolic max_token_count, empty blocks, EOF flags, final padding.  No dictionary (literal-only).
    #[kani::stub(crate::huffman_encoding::HuffmanWriter::start_fixed_huffman_table, crate::huffman_encoding::verif_harness::stub_start_fixed)]
    fn k02f_block_structure() {
        let nb: usize = kani::any();
        kani::assume(nb >= 1 && nb <= MAXB);
        let mut blocks: Vec<PreflateTokenBlock> = Vec::new();
        let mut plain: Vec<u8> = Vec::new();
        let mut b = 0;
        while b < MAXB {
            if b < nb {
                let stored: bool = kani::any();
                let n: usize = kani::any();
                kani::assume(n <= 2);
                let mut blk = PreflateTokenBlock::new(if stored { BlockType::Stored } else { BlockType::StaticHuff });
                if stored { blk.padding_bits = kani::any(); kani::assume(blk.padding_bits < 32); }
                let mut i = 0;
                while i < 2 {
                    if i < n {
                        let c: u8 = kani::any();
                        plain.push(c);
                        if stored { blk.uncompressed.push(c); } else { blk.add_literal(c); }
                    }
                    i += 1;
                }
                blocks.push(blk);
            }
            b += 1;
        }
        let eof_padding: u8 = kani::any();
        // expected bytes: the real writer on the original blocks
        let mut w = DeflateWriter::new();
        let mut b = 0;
        while b < MAXB { if b < nb { w.encode_block(&blocks[b], b == nb - 1).unwrap(); } b += 1; }
        w.flush_with_padding(eof_padding);
        let expected = w.detach_output();

        let mut pred = nodict_predictor_params(PreflateStrategy::HuffOnly);
        pred.max_token_count = kani::any();
        kani::assume(pred.max_token_count >= 1);
        let params = PreflateParameters { huff_strategy: PreflateHuffStrategy::Static, predictor: pred };
        let contents = DeflateContents { compressed_size: expected.len(), plain_text: plain, blocks, eof_padding };
        let mut rec = Rec::new();
        let r = encode_mispredictions(&contents, &params, &mut rec);
        assert!(r.is_ok());
        let d = decode_mispredictions(&params, PreflateInput::new(&contents.plain_text), &mut rec);
        assert!(d.is_ok(), "decode_mispredictions fails on corrections encode_mispredictions produced");
        let (out, blocks2) = d.unwrap();
        assert!(blocks2.len() == nb, "number of blocks changed");
        assert!(out.len() == expected.len(), "reconstructed length differs");
        let mut i = 0;
        while i < expected.len() { assert!(out[i] == expected[i], "reconstructed bytes differ"); i += 1; }
        assert!(rec.fully_consumed());
        kani::cover!(nb == 3 && contents.blocks[0].tokens.len() == 0 && contents.blocks[0].block_type == BlockType::StaticHuff, "empty fixed block first");
        kani::cover!(nb == 3 && contents.blocks[2].block_type == BlockType::Stored && contents.blocks[2].uncompressed.len() == 0, "empty stored block last");
        kani::cover!(pred.max_token_count == 1 && nb >= 2, "block size limit 1");
        core::mem::forget(blocks2); core::mem::forget(contents); core::mem::forget(out); core::mem::forget(expected);
    }
}

kproof! {
    /// K03e: parse_deflate's compressed_size is the byte cursor after the last block's padding and the
    /// parse depends only on those bytes: two inputs that agree on the consumed prefix give the same result.
    fn k03e_consumed_prefix() {
        const N: usize = 8;
        let mut a: [u8; N] = kani::any();
        a[0] = 0x01; // one final stored block; concrete header bits keep symbolic execution out of the Huffman arms
                     // (padding-bit variation is covered by k07a_stored_rewrite_*)
        let r = parse_deflate(&a[..], 0);
        kani::assume(r.is_ok());
        let c = r.unwrap();
        assert!(c.compressed_size >= 5 && c.compressed_size <= N);
        assert!(c.compressed_size == 5 + c.plain_text.len());
        // replace everything after the consumed prefix
        let mut b: [u8; N] = kani::any();
        b[0] = 0x01;
        let mut i = 1;
        while i < N { if i < c.compressed_size { b[i] = a[i]; } i += 1; }
        let r2 = parse_deflate(&b[..], 0);
        assert!(r2.is_ok(), "bytes after compressed_size influence acceptance");
        let c2 = r2.unwrap();
        assert!(c2.compressed_size == c.compressed_size && c2.plain_text.len() == c.plain_text.len() && c2.eof_padding == c.eof_padding);
        let mut i = 0;
        while i < N { if i < c.plain_text.len() { assert!(c.plain_text[i] == c2.plain_text[i]); } i += 1; }
        // truncating to exactly the consumed prefix also parses identically
        let r3 = parse_deflate(&a[..c.compressed_size], 0);
        assert!(r3.is_ok());
        kani::cover!(c.compressed_size == 7, "two payload bytes, one trailing byte ignored");
        core::mem::forget(c); core::mem::forget(c2); core::mem::forget(r3);
    }
}

// ---------------------------------------------------------------------------
// Block sequence / EOF signalling mirror over CONTRACT stubs (C02, C08): the REAL encode_mispredictions /
// predict_blocks / decode_mispredictions / recreate_blocks run with every callee replaced by its contract:
//   * TokenPredictor::predict_block(b): Err, or records what identifies b (type, tag, plaintext length) in the codec and
//     advances the input by b's plaintext length (mirror lemma k02m_*; `last_block` is logged and checked);
//   * TokenPredictor::recreate_block: reads that record back and advances the input identically;
//   * predict_tree_for_block / recreate_tree_for_block: a marker pair in the codec (mirror lemma k02b/k02c/k07c);
//   * DeflateWriter::encode_block / flush_with_padding: logged (type, tag, tree tag, final flag / padding).
// What is left is exactly process.rs's own logic: where EOFMisprediction flags are written and read, the order of block
// and tree corrections, which block gets the final flag, the trailing padding correction.
// ---------------------------------------------------------------------------
pub const PB_MAX: usize = 4;
pub static mut PB_N: [u8; PB_MAX] = [0x51; PB_MAX];        // plaintext length of block i (by tag)
pub static mut PB_LAST: [u8; PB_MAX] = [0x52; PB_MAX];     // last_block flag seen by predict_block for tag i (2 = not called)
pub static mut PB_CALLS: usize = 0x5EED_0000_0000_0053;
pub static mut WB_LOG: [[u8; 4]; PB_MAX] = [[0x54; 4]; PB_MAX]; // encode_block calls: type, tag, tree tag, final flag
pub static mut WB_CALLS: usize = 0x5EED_0000_0000_0055;
pub static mut WB_PAD: u32 = 0x5EED_0056;                   // flush_with_padding argument + 0x100 once called
pub static mut PB_FAIL_AT: usize = 0x5EED_0000_0000_0057;   // predict_block call that reports Err (>= PB_MAX: none)
const TREE_MARK: u16 = 0x2A5;

fn bt_of(t: u8) -> BlockType { match t { 0 => BlockType::Stored, 1 => BlockType::StaticHuff, _ => BlockType::DynamicHuff } }
fn t_of(b: BlockType) -> u8 { match b { BlockType::Stored => 0, BlockType::StaticHuff => 1, BlockType::DynamicHuff => 2 } }
pub fn contract_predict_block<'a, D: PredictionEncoder>(this: &mut TokenPredictor<'a>, block: &PreflateTokenBlock, codec: &mut D, last_block: bool) -> Result<(), PreflateError> where 'a: 'a {
    unsafe {
        let call = PB_CALLS;
        PB_CALLS += 1;
        let tag = block.padding_bits as usize;
        assert!(tag < PB_MAX);
        PB_LAST[tag] = last_block as u8;
        if call == PB_FAIL_AT { return crate::preflate_error::err_exit_code(ExitCode::PredictBlock, ""); }
        codec.encode_value(t_of(block.block_type) as u16, 2);
        codec.encode_value(tag as u16, 3);
        codec.encode_value(PB_N[tag] as u16, 8);
        assert!(PB_N[tag] as u32 <= this.verif_remaining(), "predict_block contract: block plaintext exceeds the remaining input");
        this.verif_advance(PB_N[tag] as u32);
    }
    Ok(())
}
pub fn contract_recreate_block<'a, D: PredictionDecoder>(this: &mut TokenPredictor<'a>, codec: &mut D) -> Result<PreflateTokenBlock, PreflateError> where 'a: 'a {
    let bt = codec.decode_value(2);
    let tag = codec.decode_value(3);
    let n = codec.decode_value(8) as u32;
    let mut b = PreflateTokenBlock::new(bt_of(bt as u8));
    b.padding_bits = tag as u8;
    assert!(n <= this.verif_remaining(), "recreate_block contract: block plaintext exceeds the remaining input");
    this.verif_advance(n);
    Ok(b)
}
pub fn contract_predict_tree<D: PredictionEncoder>(huffman_encoding: &HuffmanOriginalEncoding, _freq: &crate::preflate_token::TokenFrequency, encoder: &mut D, _huffcalc: HufftreeBitCalc) -> Result<(), PreflateError> {
    encoder.encode_value(TREE_MARK, 10);
    encoder.encode_value(huffman_encoding.num_code_lengths as u16, 5);
    Ok(())
}
pub fn contract_recreate_tree<D: PredictionDecoder>(_freq: &crate::preflate_token::TokenFrequency, codec: &mut D, _huffcalc: HufftreeBitCalc) -> Result<HuffmanOriginalEncoding, PreflateError> {
    let m = codec.decode_value(10);
    assert!(m == TREE_MARK);
    let mut h = HuffmanOriginalEncoding::default();
    h.num_code_lengths = codec.decode_value(5) as usize;
    Ok(h)
}
pub fn contract_encode_block(_this: &mut DeflateWriter, block: &PreflateTokenBlock, last: bool) -> Result<(), PreflateError> {
    unsafe {
        let c = WB_CALLS;
        WB_CALLS += 1;
        if c < PB_MAX { WB_LOG[c] = [t_of(block.block_type), block.padding_bits, block.huffman_encoding.num_code_lengths as u8, last as u8]; }
    }
    Ok(())
}
pub fn contract_flush_with_padding(_this: &mut DeflateWriter, padding: u8) {
    unsafe { WB_PAD = 0x100 + padding as u32; }
}
use crate::huffman_encoding::HuffmanOriginalEncoding;

fn block_sequence<const NB: usize>() {
    const T: usize = 6;
    let text: [u8; T] = kani::any();
    let mut blocks: Vec<PreflateTokenBlock> = Vec::with_capacity(NB);
    let mut total: usize = 0;
    let mut types = [0u8; PB_MAX];
    let mut trees = [0u8; PB_MAX];
    unsafe {
        PB_CALLS = 0; WB_CALLS = 0; WB_PAD = 0; PB_FAIL_AT = kani::any();
        PB_LAST = [2; PB_MAX]; WB_LOG = [[0xEE; 4]; PB_MAX]; PB_N = [0; PB_MAX];
        let mut i = 0;
        while i < NB {
            let t: u8 = kani::any();
            kani::assume(t <= 2);
            let n: u8 = kani::any();
            kani::assume(n <= 2);
            let mut b = PreflateTokenBlock::new(bt_of(t));
            b.padding_bits = i as u8;
            let tree: u8 = kani::any();
            kani::assume(tree >= 4 && tree <= 19);
            b.huffman_encoding.num_code_lengths = if t == 2 { tree as usize } else { 0 };
            types[i] = t; trees[i] = if t == 2 { tree } else { 0 };
            PB_N[i] = n;
            total += n as usize;
            blocks.push(b);
            i += 1;
        }
    }
    kani::assume(total <= T);
    let eof_padding: u8 = kani::any();
    let params = PreflateParameters { huff_strategy: PreflateHuffStrategy::Dynamic, predictor: nodict_predictor_params(PreflateStrategy::HuffOnly) };
    // parse_deflate's postcondition: plain_text is the concatenation of the blocks' plaintext
    let contents = DeflateContents { compressed_size: 0, plain_text: Vec::new(), blocks, eof_padding };
    let mut rec = Rec::new();
    let r = predict_blocks_with_text(&contents, &text[..total], &params, &mut rec);
    let ok = r.is_ok();
    if ok {
        unsafe {
            assert!(PB_CALLS == NB, "predict_block not called once per block");
            let mut i = 0;
            while i < NB { assert!(PB_LAST[i] == (i == NB - 1) as u8, "last_block flag passed to predict_block is wrong"); i += 1; }
        }
        let d = decode_mispredictions(&params, PreflateInput::new(&text[..total]), &mut rec);
        assert!(d.is_ok(), "decode_mispredictions fails on corrections encode_mispredictions produced");
        let (out, blocks2) = d.unwrap();
        assert!(blocks2.len() == NB, "number of blocks changed");
        unsafe {
            assert!(WB_CALLS == NB, "the writer did not get one encode_block call per block");
            let mut i = 0;
            while i < NB {
                assert!(WB_LOG[i][0] == types[i] && WB_LOG[i][1] == i as u8, "block order or type changed");
                assert!(WB_LOG[i][2] == trees[i], "a dynamic block reached the writer without (or with another block's) Huffman header");
                assert!(WB_LOG[i][3] == (i == NB - 1) as u8, "final-block flag set on the wrong block");
                i += 1;
            }
            assert!(WB_PAD == 0x100 + eof_padding as u32, "padding of the last byte not restored");
        }
        assert!(rec.fully_consumed(), "reconstruction did not consume the corrections exactly");
        kani::cover!(NB < 2 || (unsafe { PB_N[NB - 1] } == 0 && total > 0), "empty block after the end of the plaintext");
        kani::cover!(total == 0, "no plaintext at all");
        kani::cover!(types[0] == 2, "dynamic block first");
        core::mem::forget(out); core::mem::forget(blocks2);
    }
    kani::cover!(!ok, "predict_block reports Err");
    core::mem::forget(r); core::mem::forget(contents);
}
/// encode_mispredictions with the plaintext held outside DeflateContents (a slice of a fixed array: no Vec of symbolic length)
fn predict_blocks_with_text(contents: &DeflateContents, text: &[u8], params: &PreflateParameters, rec: &mut Rec) -> Result<(), PreflateError> {
    let c2 = DeflateContents { compressed_size: 0, plain_text: unsafe { Vec::from_raw_parts(text.as_ptr() as *mut u8, text.len(), text.len()) }, blocks: Vec::new(), eof_padding: contents.eof_padding };
    // (blocks are moved in by pointer copy; both Vecs are forgotten, never dropped)
    let c3 = DeflateContents { compressed_size: 0, plain_text: c2.plain_text, blocks: unsafe { core::ptr::read(&contents.blocks) }, eof_padding: contents.eof_padding };
    let r = encode_mispredictions(&c3, params, rec);
    core::mem::forget(c3);
    r
}
macro_rules! k02p { ($name:ident, $nb:expr) => {
    kproof_vp! {
        #[kani::stub(crate::token_predictor::TokenPredictor::predict_block, contract_predict_block)]
        #[kani::stub(crate::token_predictor::TokenPredictor::recreate_block, contract_recreate_block)]
        #[kani::stub(crate::tree_predictor::predict_tree_for_block, contract_predict_tree)]
        #[kani::stub(crate::tree_predictor::recreate_tree_for_block, contract_recreate_tree)]
        #[kani::stub(crate::deflate_writer::DeflateWriter::encode_block, contract_encode_block)]
        #[kani::stub(crate::deflate_writer::DeflateWriter::flush_with_padding, contract_flush_with_padding)]
        fn $name() { block_sequence::<$nb>(); }
    }
} }
k02p!(k02p_block_sequence_1, 1);
k02p!(k02p_block_sequence_2, 2);
k02p!(k02p_block_sequence_3, 3);
k02p!(k02p_block_sequence_4, 4);
