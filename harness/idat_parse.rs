//! child of `idat_parse` (C01, C05, C13)
#![allow(unused_imports, dead_code)]
use super::*;
use crate::verif_common::*;

kproof! {
    /// K01d: IdatContents::write_to_bytestream -> read_from_bytestream gives back the chunk sizes,
    /// zlib header and Adler-32 (the fields recreate_idat uses), for every size vector of length <= 2.
    fn k01d_idat_desc_rt() {
        let n: usize = kani::any();
        kani::assume(n <= 2);
        let a: u32 = kani::any();
        let b: u32 = kani::any();
        // parse_idat never records a zero-length chunk (asserted by k01e): 0 is the list terminator
        kani::assume(a >= 1 && b >= 1 && a < (1 << 30) && b < (1 << 30));
        let mut sizes: Vec<u32> = Vec::new();
        if n >= 1 { sizes.push(a); }
        if n >= 2 { sizes.push(b); }
        let idat = IdatContents { chunk_sizes: sizes, zlib_header: kani::any(), total_chunk_length: 0, addler32: kani::any() };
        // fixed buffer instead of a growing Vec (Vec growth under symbolic lengths ran out of memory)
        let mut raw = [0u8; 24];
        let used = {
            let mut cur = std::io::Cursor::new(&mut raw[..]);
            idat.write_to_bytestream(&mut cur).unwrap();
            cur.position() as usize
        };
        let buf = &raw[..used];
        let mut s = &buf[..];
        let back = IdatContents::read_from_bytestream(&mut s).unwrap();
        assert!(back.chunk_sizes.len() == n, "number of IDAT chunk sizes changed in the descriptor round trip");
        if n >= 1 { assert!(back.chunk_sizes[0] == a); }
        if n >= 2 { assert!(back.chunk_sizes[1] == b); }
        assert!(back.zlib_header == idat.zlib_header && back.addler32 == idat.addler32);
        assert!(s.is_empty());
        kani::cover!(n == 2 && a == 1, "one-byte first chunk");
        kani::cover!(n == 2 && a > 300 && b > 70000, "multi-byte varints");
        core::mem::forget(back); core::mem::forget(idat);
    }
}

/// parse_idat on inputs of a CONCRETE chunk layout (length fields concrete, everything else symbolic):
/// total, postcondition, and parse -> recreate identity.  L2 == 255 means "no second chunk"; T = trailing bytes.
/// (Symbolic length fields make every Vec operation symbolic-sized: 30 GB were not enough for 21 bytes.)
fn idat_shape<const L1: usize, const L2: usize, const T: usize>() -> bool { idat_shape_x::<L1, L2, T, true>() }
fn idat_shape_x<const L1: usize, const L2: usize, const T: usize, const RECREATE: bool>() -> bool {
    const MAXN: usize = 44;
    let mut data: [u8; MAXN] = kani::any();
    let mut p = 0usize;
    data[p] = 0; data[p + 1] = 0; data[p + 2] = 0; data[p + 3] = L1 as u8;
    data[p + 4] = b'I'; data[p + 5] = b'D'; data[p + 6] = b'A'; data[p + 7] = b'T';
    p += 12 + L1;
    if L2 != 255 {
        data[p] = 0; data[p + 1] = 0; data[p + 2] = 0; data[p + 3] = L2 as u8;
        data[p + 4] = b'I'; data[p + 5] = b'D'; data[p + 6] = b'A'; data[p + 7] = b'T';
        p += 12 + L2;
    }
    let n = p + T;
    assert!(n <= MAXN);
    let r = parse_idat(&data[..n], 0);
    let ok = r.is_ok();
    kani::cover!(!ok, "rejected (CRC mismatch or too short)");
    // acceptance is determined by the checksums and the payload size (C06: a well-formed run must be found)
    if T < 12 {
        let crc_of = |from: usize, l: usize| -> u32 {
            let mut h = crc32fast::Hasher::new();
            h.update(b"IDAT");
            h.update(&data[from..from + l]);
            h.finalize()
        };
        let crc1_ok = crc_of(8, L1) == u32::from_be_bytes([data[8 + L1], data[9 + L1], data[10 + L1], data[11 + L1]]);
        let second = L2 != 255 && L2 != 0;
        let o2 = 12 + L1;
        let crc2_ok = !second || crc_of(o2 + 8, L2) == u32::from_be_bytes([data[o2 + 8 + L2], data[o2 + 9 + L2], data[o2 + 10 + L2], data[o2 + 11 + L2]]);
        let total = L1 + if second { L2 } else { 0 };
        if crc1_ok && crc2_ok {
            assert!(ok == (total >= 6), "a run of IDAT chunks with correct checksums is accepted exactly when it can hold zlib header + Adler-32");
        } else {
            assert!(!ok, "a chunk with a wrong checksum was accepted");
        }
    }
    if let Ok((idat, payload)) = &r {
        assert!(idat.total_chunk_length >= 12 && idat.total_chunk_length <= n, "total_chunk_length outside the input");
        let mut i = 0;
        while i < 3 { if i < idat.chunk_sizes.len() { assert!(idat.chunk_sizes[i] >= 1, "zero-length chunk recorded (collides with the size-list terminator)"); } i += 1; }
        // what the scanner / container rely on
        let mut sum = 0usize;
        let mut i = 0;
        while i < 3 { if i < idat.chunk_sizes.len() { sum += idat.chunk_sizes[i] as usize; } i += 1; }
        assert!(idat.chunk_sizes.len() >= 1 && idat.chunk_sizes.len() <= 2);
        assert!(idat.total_chunk_length == sum + 12 * idat.chunk_sizes.len(), "total_chunk_length is not the sum of the chunks");
        assert!(payload.len() + 6 == sum, "payload is not the chunk data minus zlib header and Adler-32");
        // content: recreate_idat re-emits zlib header ‖ payload ‖ Adler-32 cut at the recorded sizes, so the three must be
        // exactly the first two, the middle and the last four bytes of the CONCATENATED chunk data (the Adler-32 may
        // straddle a chunk boundary)
        let mut cat = [0u8; MAXN];
        let mut cn = 0usize;
        let mut i = 0;
        while i < L1 { cat[cn] = data[8 + i]; cn += 1; i += 1; }
        if L2 != 255 && idat.chunk_sizes.len() == 2 { let o2 = 12 + L1; let mut i = 0; while i < L2 { cat[cn] = data[o2 + 8 + i]; cn += 1; i += 1; } }
        if T == 0 && cn == sum {
            assert!(idat.zlib_header[0] == cat[0] && idat.zlib_header[1] == cat[1], "zlib header is not the first two bytes of the IDAT data");
            assert!(idat.addler32 == u32::from_be_bytes([cat[cn - 4], cat[cn - 3], cat[cn - 2], cat[cn - 1]]), "Adler-32 is not the last four bytes of the concatenated IDAT data");
            let mut i = 0;
            while i + 6 < L1 + (if L2 != 255 { L2 } else { 0 }) { if i < payload.len() { assert!(payload[i] == cat[2 + i], "payload is not the IDAT data between zlib header and Adler-32"); } i += 1; }
        }
        if !RECREATE { core::mem::forget(r); return ok; }
        let mut out: Vec<u8> = Vec::with_capacity(MAXN);
        let rr = recreate_idat(idat, &payload[..], &mut out);
        assert!(rr.is_ok(), "recreate_idat rejects what parse_idat produced");
        assert!(out.len() == idat.total_chunk_length);
        let mut i = 0;
        while i < MAXN {
            if i < out.len() { assert!(out[i] == data[i], "recreated IDAT bytes differ"); }
            i += 1;
        }
        core::mem::forget(out);
    }
    core::mem::forget(r);
    ok
}
macro_rules! cheap_crc { ($(#[$m:meta])* fn $n:ident() $b:block) => { kproof! {
    $(#[$m])*
    fn $n() { crc32fast::verif_set_cheap(true); $b }
} } }
cheap_crc! {
    /// K01e-1: one chunk of 6 / 9 / 7 payload bytes, nothing / 8 / 20 bytes behind it
    fn k01e_idat_one_chunk() { { let ok = idat_shape_x::<7, 255, 0, false>(); kani::cover!(ok, "accepted"); } }
}
cheap_crc! {
    fn k01e_idat_one_chunk_tail() { { let ok = idat_shape_x::<6, 255, 8, false>(); kani::cover!(ok, "accepted"); } { let ok = idat_shape_x::<9, 255, 20, false>(); kani::cover!(ok, "accepted"); } }
}
cheap_crc! {
    /// K01e-2: 1..11 bytes after the last chunk (shorter than a chunk header)
    fn k01e_idat_short_tail() { { let ok = idat_shape_x::<6, 255, 1, false>(); kani::cover!(ok, "accepted"); } { let ok = idat_shape_x::<7, 255, 7, false>(); kani::cover!(ok, "accepted"); } }
}
cheap_crc! {
    fn k01e_idat_short_tail2() { { let ok = idat_shape_x::<6, 255, 4, false>(); kani::cover!(ok, "accepted"); } { let ok = idat_shape_x::<6, 255, 11, false>(); kani::cover!(ok, "accepted"); } }
}
cheap_crc! {
    /// K01e-3: payloads shorter than a zlib stream's fixed parts (2 header + 4 Adler-32 bytes)
    fn k01e_idat_tiny_payload() { { let ok = idat_shape::<1, 255, 0>(); assert!(!ok, "a payload shorter than zlib header + Adler-32 was accepted"); } { let ok = idat_shape::<3, 255, 0>(); assert!(!ok, "a payload shorter than zlib header + Adler-32 was accepted"); } { let ok = idat_shape::<4, 255, 0>(); assert!(!ok, "a payload shorter than zlib header + Adler-32 was accepted"); } { let ok = idat_shape::<5, 255, 0>(); assert!(!ok, "a payload shorter than zlib header + Adler-32 was accepted"); } }
}
cheap_crc! {
    /// K01e-4: two chunks (incl. a zero-length second chunk, and a payload split inside the Adler-32)
    fn k01e_idat_recreate() { { let ok = idat_shape::<7, 255, 0>(); kani::cover!(ok, "accepted"); } }
}
cheap_crc! {
    fn k01e_idat_two_chunks2() { { let ok = idat_shape_x::<6, 0, 0, false>(); kani::cover!(ok, "accepted"); } { let ok = idat_shape_x::<4, 3, 0, false>(); kani::cover!(ok, "accepted"); } }
}
kproof! {
    /// K01e-crc: one chunk with the real (bit-serial) CRC-32
    fn k01e_idat_real_crc() { { let ok = idat_shape::<6, 255, 0>(); kani::cover!(ok, "accepted"); } }
}

cheap_crc! {
    /// K13c: recreate_idat writes the same bytes whether the destination accepts everything at once or one byte
    /// per call (partial writes), and a destination error surfaces as Err
    fn k13c_recreate_idat_partial_writes() {
        use crate::preflate_container::verif_harness::FragWrite;
        let payload: [u8; 3] = kani::any();
        let idat = IdatContents { chunk_sizes: vec![5, 4], zlib_header: kani::any(), total_chunk_length: 0, addler32: kani::any() };
        let mut whole: Vec<u8> = Vec::with_capacity(48);
        recreate_idat(&idat, &payload[..], &mut whole).unwrap();
        assert!(whole.len() == 12 + 5 + 12 + 4);
        let mut dst = FragWrite { out: [0; crate::preflate_container::verif_harness::FR_N], n: 0, fail_at: 99, step: 1, failed: false };
        let r = recreate_idat(&idat, &payload[..], &mut dst);
        assert!(r.is_ok());
        assert!(dst.n == whole.len(), "output length depends on how the destination accepts writes");
        let mut i = 0;
        while i < 33 { assert!(dst.out[i] == whole[i], "output depends on how the destination accepts writes"); i += 1; }
        kani::cover!(true, "reached");
        core::mem::forget(whole); core::mem::forget(idat);
    }
}

cheap_crc! {
    /// thorough: further layouts (longer payloads, two chunks with trailing bytes)
    fn k01e_idat_more_layouts() {
        { let ok = idat_shape_x::<12, 255, 0, false>(); kani::cover!(ok, "accepted"); }
        { let ok = idat_shape_x::<3, 4, 5, false>(); kani::cover!(ok, "accepted"); }
        { let ok = idat_shape_x::<5, 1, 0, false>(); kani::cover!(ok, "accepted"); }
        { let ok = idat_shape_x::<2, 2, 9, false>(); assert!(!ok); }
    }
}
