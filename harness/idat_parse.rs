//! child of `idat_parse` (C01, C05, C13)
#![allow(unused_imports, dead_code)]
use super::*;
use crate::verif_common::*;

kproof! {
    /// K01d: IdatContents::write_to_bytestream -> read_from_bytestream gives back the chunk sizes,
    /// zlib header and Adler-32 (the fields recreate_idat uses), for every size vector of length <= 2.
    fn k01d_idat_desc_rt() {
        let n: usize = kani::any();
        kani::assume(n <= 2);
        let a: u32 = kani::any();
        let b: u32 = kani::any();
        kani::assume(a < (1 << 30) && b < (1 << 30));
        let mut sizes: Vec<u32> = Vec::new();
        if n >= 1 { sizes.push(a); }
        if n >= 2 { sizes.push(b); }
        let idat = IdatContents { chunk_sizes: sizes, zlib_header: kani::any(), total_chunk_length: 0, addler32: kani::any() };
        // fixed buffer instead of a growing Vec (Vec growth under symbolic lengths ran out of memory)
        let mut raw = [0u8; 24];
        let used = {
            let mut cur = std::io::Cursor::new(&mut raw[..]);
            idat.write_to_bytestream(&mut cur).unwrap();
            cur.position() as usize
        };
        let buf = &raw[..used];
        let mut s = &buf[..];
        let back = IdatContents::read_from_bytestream(&mut s).unwrap();
        assert!(back.chunk_sizes.len() == n, "number of IDAT chunk sizes changed in the descriptor round trip");
        if n >= 1 { assert!(back.chunk_sizes[0] == a); }
        if n >= 2 { assert!(back.chunk_sizes[1] == b); }
        assert!(back.zlib_header == idat.zlib_header && back.addler32 == idat.addler32);
        assert!(s.is_empty());
        kani::cover!(n == 2 && a == 0, "zero-length first chunk");
        kani::cover!(n == 2 && a > 300 && b > 70000, "multi-byte varints");
        core::mem::forget(back); core::mem::forget(idat);
    }
}

/// parse_idat on every input of exactly N bytes: total, postcondition, and parse -> recreate identity
fn idat_total<const N: usize>() {
    let data: [u8; N] = kani::any();
    let n: usize = kani::any();
    kani::assume(n <= N);
    let r = parse_idat(&data[..n], 0);
    if let Ok((idat, payload)) = &r {
        assert!(idat.total_chunk_length >= 12 && idat.total_chunk_length <= n, "total_chunk_length outside the input");
        let mut out: Vec<u8> = Vec::new();
        let rr = recreate_idat(idat, &payload[..], &mut out);
        assert!(rr.is_ok(), "recreate_idat rejects what parse_idat produced");
        assert!(out.len() == idat.total_chunk_length);
        let mut i = 0;
        while i < N {
            if i < out.len() { assert!(out[i] == data[i], "recreated IDAT bytes differ"); }
            i += 1;
        }
        core::mem::forget(out);
    }
    kani::cover!(r.is_ok(), "accepted");
    kani::cover!(matches!(&r, Ok((i, _)) if i.chunk_sizes.len() == 2), "two chunks accepted");
    core::mem::forget(r);
}
kproof! {
    /// K01e: all inputs of <= 27 bytes.  The checksum function is replaced by a cheap byte mixer
    /// (its value is not the subject; both parse_idat and recreate_idat call the same function).
    #[kani::stub(crc32fast::Hasher::update, crc32fast::Hasher::update_cheap)]
    fn k01e_idat_total_27() { idat_total::<27>(); }
}
kproof! {
    /// K01e': one chunk with the real (bit-serial) CRC-32, <= 20 bytes
    fn k01e_idat_total_20_crc() { idat_total::<20>(); }
}
