//! child of the crate root: the two C ABI wrappers (C12) over the zstd framing model
#![allow(unused_imports, dead_code)]
use super::*;
use crate::verif_common::*;

// Kani 0.68 hits an internal compiler error on the catch_unwind intrinsic of its toolchain and has no
// unwinding semantics (panic=abort).  The driver therefore substitutes, IN THE SCRATCH COPY ONLY, the import
// `panic::catch_unwind` in src/lib.rs by a cfg(kani) shim that calls the closure (lib/driver.py,
// CATCH_UNWIND_SUBST).  "Never unwinds into the caller" is therefore NOT decided here; a panic inside
// the wrappers is reported by Kani as a failed check instead.

const GUARD: usize = 4;
const CAPMAX: usize = 20;

kproof! {
    /// K12a: WrapperCompressZip — status, *result_size and the caller's buffer bounds
    #[kani::stub(crate::preflate_container::expand_zlib_chunks, crate::preflate_container::verif_harness::contract_expand_identity)]
    #[kani::stub(crate::preflate_container::recreated_zlib_chunks, crate::preflate_container::verif_harness::contract_recreate_identity)]
    fn k12a_wrapper_compress() {
        // needed size = 8 + FLEN (frame of the zstd model around the identity container)
        wrapper_compress::<0, 7>(); wrapper_compress::<0, 8>(); wrapper_compress::<3, 10>(); wrapper_compress::<3, 11>(); wrapper_compress::<3, 20>();
    }
}
fn wrapper_compress<const FLEN: usize, const CAP: usize>() {
    {
        let file: [u8; 3] = kani::any();
        let flen: usize = FLEN;
        let cap: usize = CAP;
        let mut region = [0xA5u8; GUARD + CAPMAX + GUARD];
        let mut result_size: u64 = 0xdead;
        let rc = unsafe {
            WrapperCompressZip(file.as_ptr(), flen as u64, region.as_mut_ptr().add(GUARD), cap as u64, &mut result_size as *mut u64)
        };
        // identity container contract: expanded form = the input itself
        let expanded = flen;
        let need = expanded + 8; // frame of the zstd model
        let mut i = 0;
        while i < GUARD {
            assert!(region[i] == 0xA5, "write below output_buffer");
            i += 1;
        }
        let mut i = GUARD + cap;
        while i < GUARD + CAPMAX + GUARD {
            assert!(region[i] == 0xA5, "write past output_buffer + output_buffer_size");
            i += 1;
        }
        if rc == 0 {
            assert!(result_size as usize <= cap, "*result_size exceeds the buffer");
            assert!(result_size as usize == need);
        }
        if cap < need { assert!(rc < 0, "undersized output buffer must give a negative status"); }
        if cap >= need { assert!(rc == 0); }
        kani::cover!(true, "reached");
    }
}

kproof! {
    /// K12b: compress then WrapperDecompressZip into a guarded buffer of every capacity
    #[kani::stub(crate::preflate_container::expand_zlib_chunks, crate::preflate_container::verif_harness::contract_expand_identity)]
    #[kani::stub(crate::preflate_container::recreated_zlib_chunks, crate::preflate_container::verif_harness::contract_recreate_identity)]
    fn k12b_wrapper_roundtrip() {
        wrapper_roundtrip::<3, 2>(); wrapper_roundtrip::<3, 3>(); wrapper_roundtrip::<0, 0>(); wrapper_roundtrip::<3, 6>();
    }
}
fn wrapper_roundtrip<const FLEN: usize, const CAP: usize>() {
    {
        let file: [u8; 3] = kani::any();
        let flen: usize = FLEN;
        let mut comp = [0u8; 24];
        let mut csize: u64 = 0;
        let rc = unsafe { WrapperCompressZip(file.as_ptr(), flen as u64, comp.as_mut_ptr(), 24, &mut csize as *mut u64) };
        assert!(rc == 0 && csize as usize <= 24);
        let cap: usize = CAP;
        let mut region = [0x5Au8; GUARD + 6 + GUARD];
        let mut osize: u64 = 0xdead;
        let rc2 = unsafe { WrapperDecompressZip(comp.as_ptr(), csize, region.as_mut_ptr().add(GUARD), cap as u64, &mut osize as *mut u64) };
        let mut i = 0;
        while i < GUARD { assert!(region[i] == 0x5A, "write below output_buffer"); i += 1; }
        let mut i = GUARD + cap;
        while i < GUARD + 6 + GUARD { assert!(region[i] == 0x5A, "write past output_buffer + output_buffer_size"); i += 1; }
        if rc2 == 0 {
            assert!(osize as usize <= cap && osize as usize == flen, "result size wrong");
            let mut i = 0;
            while i < 3 { if i < flen { assert!(region[GUARD + i] == file[i], "round trip through the wrappers changed the file"); } i += 1; }
        }
        if cap < flen { assert!(rc2 < 0, "undersized output buffer must give a negative status"); }
        if cap >= flen { assert!(rc2 == 0); }
        kani::cover!(true, "reached");
    }
}

kproof! {
    /// K12c: arbitrary (non-container / non-frame) bytes into WrapperDecompressZip: status only, buffer untouched outside
    #[kani::stub(crate::preflate_container::recompress_deflate_stream, crate::preflate_container::verif_harness::stub_recompress_err)]
    #[kani::stub(crate::scan_deflate::split_into_deflate_streams, crate::scan_deflate::verif_harness::contract_split_literal_only)]
    #[kani::stub(crate::idat_parse::IdatContents::read_from_bytestream, crate::preflate_container::verif_harness::stub_idat_read_err)]
    #[kani::stub(crate::preflate_container::recreated_zlib_chunks, crate::preflate_container::verif_harness::stub_recreate_unreachable)]
    fn k12c_wrapper_decompress_garbage() {
        let data: [u8; 12] = kani::any();
        let n: usize = kani::any();
        kani::assume(n <= 12);
        let cap: usize = kani::any();
        kani::assume(cap <= 4);
        let mut region = [0x5Au8; GUARD + 4 + GUARD];
        let mut osize: u64 = 0xdead;
        let well_formed = n >= 8 && data[0..4] == zstd::bulk::MAGIC && u32::from_le_bytes([data[4], data[5], data[6], data[7]]) as usize == n - 8;
        kani::assume(!well_formed);
        let rc = unsafe { WrapperDecompressZip(data.as_ptr(), n as u64, region.as_mut_ptr().add(GUARD), cap as u64, &mut osize as *mut u64) };
        assert!(rc < 0, "a non-frame must give a negative status");
        let mut i = 0;
        while i < GUARD { assert!(region[i] == 0x5A); i += 1; }
        let mut i = GUARD + cap;
        while i < GUARD + 4 + GUARD { assert!(region[i] == 0x5A, "write past the caller's buffer"); i += 1; }
        if rc == 0 { assert!(osize as usize <= cap); }
        kani::cover!(n == 12, "rejected full-length input");
    }
}

kproof! {
    /// K12a-more: further (length, capacity) instances
    #[kani::stub(crate::preflate_container::expand_zlib_chunks, crate::preflate_container::verif_harness::contract_expand_identity)]
    #[kani::stub(crate::preflate_container::recreated_zlib_chunks, crate::preflate_container::verif_harness::contract_recreate_identity)]
    fn k12a_wrapper_compress_more() {
        wrapper_compress::<0, 0>(); wrapper_compress::<2, 9>(); wrapper_compress::<2, 10>(); wrapper_compress::<1, 12>();
    }
}
kproof! {
    /// K12b-more: further (length, capacity) instances
    #[kani::stub(crate::preflate_container::expand_zlib_chunks, crate::preflate_container::verif_harness::contract_expand_identity)]
    #[kani::stub(crate::preflate_container::recreated_zlib_chunks, crate::preflate_container::verif_harness::contract_recreate_identity)]
    fn k12b_wrapper_roundtrip_more() {
        wrapper_roundtrip::<3, 0>(); wrapper_roundtrip::<2, 1>(); wrapper_roundtrip::<1, 1>(); wrapper_roundtrip::<2, 5>();
    }
}
