//! Framing model of `zstd::bulk` (API subset used by preflate-rs).
//!
//! Contract modelled (the documented behaviour of zstd's one-shot API):
//!  * `compress(x, _)`            = Ok(MAGIC ‖ len(x) as u32 LE ‖ x)
//!  * `compress_to_buffer(x,b,_)` = Err if the frame does not fit in `b`, else writes it, Ok(frame len)
//!  * `decompress(y, cap)`        = Err unless `y` is exactly one well-formed frame whose content
//!                                  length is ≤ cap; Ok(content) otherwise
//! Nothing about real compression ratios, dictionary behaviour or corrupt-frame
//! detection strength is modelled.
pub mod bulk {
    use std::io::{Error, ErrorKind, Result};

    pub const MAGIC: [u8; 4] = [0x28, 0xB5, 0x2F, 0xFD];

    pub fn compress(data: &[u8], _level: i32) -> Result<Vec<u8>> {
        let mut out = Vec::with_capacity(data.len() + 8);
        out.extend_from_slice(&MAGIC);
        out.extend_from_slice(&(data.len() as u32).to_le_bytes());
        out.extend_from_slice(data);
        Ok(out)
    }

    pub fn compress_to_buffer(source: &[u8], destination: &mut [u8], _level: i32) -> Result<usize> {
        let need = source.len() + 8;
        if destination.len() < need {
            return Err(Error::new(ErrorKind::Other, "Destination buffer is too small"));
        }
        destination[0..4].copy_from_slice(&MAGIC);
        destination[4..8].copy_from_slice(&(source.len() as u32).to_le_bytes());
        destination[8..need].copy_from_slice(source);
        Ok(need)
    }

    pub fn decompress(data: &[u8], capacity: usize) -> Result<Vec<u8>> {
        if data.len() < 8 || data[0..4] != MAGIC {
            return Err(Error::new(ErrorKind::Other, "Unknown frame descriptor"));
        }
        let len = u32::from_le_bytes([data[4], data[5], data[6], data[7]]) as usize;
        if len != data.len() - 8 {
            return Err(Error::new(ErrorKind::Other, "Src size is incorrect"));
        }
        if len > capacity {
            return Err(Error::new(ErrorKind::Other, "Destination buffer is too small"));
        }
        Ok(data[8..].to_vec())
    }
}

/// subset of `zstd::zstd_safe` (re-exported by the real crate): frame header inspection under the same framing model
pub mod zstd_safe {
    #[derive(Debug)]
    pub struct ContentSizeError;
    /// Ok(Some(n)) for a buffer that starts with a frame header of the model, Err otherwise
    pub fn get_frame_content_size(src: &[u8]) -> Result<Option<u64>, ContentSizeError> {
        if src.len() < 8 || src[0..4] != crate::bulk::MAGIC {
            return Err(ContentSizeError);
        }
        Ok(Some(u32::from_le_bytes([src[4], src[5], src[6], src[7]]) as u64))
    }
}
