//! Verification shim for `crc32fast` (API subset used by preflate-rs).
//! Bit-serial CRC-32/ISO-HDLC, reflected polynomial 0xEDB88320 — validated
//! natively against the real crate by /verif/native/validate_shims (setup_cmd).

/// Harness switch: when set, `update` is the cheap mixer below.  A plain flag (not a Kani stub) so that a solver
/// counterexample replays natively with the same checksum function the solver saw.
static mut CHEAP: u32 = 0x5EED_00C1; // 1 = cheap mixer on (not a bool with value false: Kani may merge such a static with a constant)
pub fn verif_set_cheap(on: bool) {
    unsafe { CHEAP = on as u32; }
}

#[derive(Clone, Debug)]
pub struct Hasher {
    state: u32,
}

impl Default for Hasher {
    fn default() -> Self {
        Self::new()
    }
}

impl Hasher {
    pub fn new() -> Self {
        Hasher { state: 0xFFFF_FFFF }
    }

    pub fn new_with_initial(init: u32) -> Self {
        Hasher { state: !init }
    }

    pub fn update(&mut self, buf: &[u8]) {
        if unsafe { CHEAP } == 1 {
            return self.update_cheap(buf);
        }
        let mut crc = self.state;
        let mut i = 0;
        while i < buf.len() {
            crc ^= buf[i] as u32;
            let mut k = 0;
            while k < 8 {
                let mask = (!(crc & 1)).wrapping_add(1); // 0xFFFFFFFF if low bit set
                crc = (crc >> 1) ^ (0xEDB8_8320 & mask);
                k += 1;
            }
            i += 1;
        }
        self.state = crc;
    }

    /// NOT a CRC: a cheap byte mixer that harnesses may switch `update` to (verif_set_cheap) when the checksum's value is
    /// not the subject (parse/recreate symmetry only needs "same function on both sides").
    pub fn update_cheap(&mut self, buf: &[u8]) {
        let mut s = self.state;
        let mut i = 0;
        while i < buf.len() {
            s = s.rotate_left(5) ^ (buf[i] as u32);
            i += 1;
        }
        self.state = s;
    }

    pub fn finalize(self) -> u32 {
        !self.state
    }

    pub fn reset(&mut self) {
        self.state = 0xFFFF_FFFF;
    }
}

pub fn hash(buf: &[u8]) -> u32 {
    let mut h = Hasher::new();
    h.update(buf);
    h.finalize()
}
