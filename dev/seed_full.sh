#!/bin/bash
# full-pipeline trial (with native replay) of every seeded change against the harness recorded as catching it;
# prints per seed whether a VIOLATION line was produced
while read name rx; do
  [ -z "$name" ] && continue
  REPLAYS=2 JOBS=2 TIER=${TIER:-quick} /verif/dev/try_seed.sh $name "$rx" > /dev/null 2>&1
  v=$(grep -a -c "^VIOLATION\|\] VIOLATION\|VIOLATION property" /tmp/seedrun_$name.log)
  echo "$name rx=$rx violations=$v :: $(grep -a -E 'harnesses SUCCESS' /tmp/seedrun_$name.log | tail -1)"
done <<LIST
C01_gzip_fextra_seek_past_end ^k01_gzip_hdr_16$
C01_idat_crc_mismatch_breaks_loop ^k01e_idat_one_chunk$
C02_hop_match_excludes_max_distance ^k02d_hops_inverse_h3$
C03_irregular258_decoded_as_257 ^k03g_fixed_reader_len_27_28$
C04_header_flag_order_swapped ^k04f_param_header_equiv$
C05_reshift_threshold_0xfefe ^k05g_chain_position_step$
C06_gzip_fhcrc_skipped_first ^k01_gzip_hdr_16$
C06_idat_fit_bound_off_by_one ^k01e_idat_one_chunk$
C07_distance_code_and_extra_in_one_write ^k07x_dynamic_token_write$
C07_pad_single_fill_bit ^k07a_stored_rewrite_7$
C08_max_chain_12_bits ^k02a_params_rt$
C10_decoder_clamps_bit_length_30 ^k10a_exp_pair_8$
C10_finish_only_when_default_pending ^k10d
C11_capacity_from_frame_header ^k11a_zstd_roundtrip$
C12_decompress_into_vec_truncates ^k12b
C13_idat_crc_partial_write ^k13c
C13_read_error_at_chunk_boundary_is_eof ^k13b_io_faults$
LIST
