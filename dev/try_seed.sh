#!/bin/bash
# usage: try_seed.sh <seed name> <harness regex>   -- applies the seed to /repo, runs the matching harnesses, reverts
name=$1; rx=$2
cd /repo && git diff --quiet || { echo "/repo not clean"; exit 2; }
git -C /repo apply /verif/seeded/$name/patch.diff || git -C /repo apply --3way /verif/seeded/$name/patch.diff || { echo "APPLY FAILED $name"; git -C /repo checkout -- .; exit 2; }
cd /verif && VERIF_JOBS=${JOBS:-6} VERIF_MAX_REPLAYS=${REPLAYS:-0} ./check ALL quick --only "$rx" > /tmp/seedrun_$name.log 2>&1
rc=$?
git -C /repo checkout -- . ; git -C /repo reset -q
echo "$name rc=$rc: $(grep -a -E '^  k' /tmp/seedrun_$name.log | awk '{print $1":"$2}' | tr '\n' ' ')"
