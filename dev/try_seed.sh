#!/bin/bash
# usage: try_seed.sh <seed name> <harness regex>
# applies the seed to /repo, starts the matching harnesses (the driver snapshots /repo at start), reverts /repo at once,
# then waits for the result.  Serialised on a lock so that two seeds are never in /repo at the same time.
name=$1; rx=$2
# <seed name> may also be name=/path/to/patch.diff
patch=/verif/seeded/$name/patch.diff
case "$name" in *=*) patch=${name#*=}; name=${name%%=*};; esac
(
flock 9
cd /repo && git diff --quiet || { echo "/repo not clean"; exit 2; }
git -C /repo apply $patch 2>/dev/null || git -C /repo apply --3way $patch || { echo "APPLY FAILED $name"; git -C /repo checkout -- .; exit 2; }
cd /verif && (VERIF_NO_LOCK=1 VERIF_EVIDENCE_DIR=/tmp/ev_tmp VERIF_JOBS=${JOBS:-4} VERIF_MAX_REPLAYS=${REPLAYS:-0} ./check ALL ${TIER:-quick} --only "$rx" > /tmp/seedrun_$name.log 2>&1 9>&- &)
for i in $(seq 1 60); do grep -q "scratch" /tmp/seedrun_$name.log 2>/dev/null && break; sleep 1; done
git -C /repo checkout -- . ; git -C /repo reset -q
) 9>/tmp/seed.lock
while ! grep -q "harnesses SUCCESS\|BUILD FAILED\|no harness serves" /tmp/seedrun_$name.log 2>/dev/null; do sleep 5; done
echo "$name: $(grep -a -E '^  k' /tmp/seedrun_$name.log | awk '{print $1":"$2}' | tr '\n' ' ')"
