#!/usr/bin/env python3
"""usage: record_trial.py <seed name> [<log>]  -- writes detected_by into seeded/<name>/meta.json from a dev/try_seed.sh log"""
import sys, json, re, os
name = sys.argv[1]
log = sys.argv[2] if len(sys.argv) > 2 else "/tmp/seedrun_%s.log" % name
t = open(log, errors="replace").read()
rows = re.findall(r"^  (k\w+)\s+(\w+)\s+checks=", t, re.M)
viol = re.findall(r"VIOLATION property=\w+ replay=\S*?ALL_(\w+)\.json", t)
failed = [h for h, s in rows if s == "FAILURE"]
other = [(h, s) for h, s in rows if s not in ("FAILURE", "SUCCESS")]
msgs = re.findall(r"^   - [^|]*\| (.*?) \|", t, re.M)
mp = "/verif/seeded/%s/meta.json" % name
m = json.load(open(mp))
if viol:
    status = "caught (harness FAILURE, concrete playback, native replay reproduced, VIOLATION line)"
elif failed:
    status = "harness FAILURE but no VIOLATION line in this trial (replay not run, not reproduced or out of budget): exit 2"
elif other:
    status = "not decided: " + ", ".join("%s %s" % x for x in other)
else:
    status = "missed"
m["detected_by"] = {"status": status, "violation_from": sorted(set(viol)), "harnesses_failing": failed,
                    "failing_assertions": sorted(set(msgs))[:6],
                    "what_i_ran": "dev/try_seed.sh %s <regex>: git -C /repo apply patch.diff; ./check ALL quick --only <regex> (snapshot taken); git -C /repo checkout -- ." % name}
json.dump(m, open(mp, "w"), indent=1)
print(name, "|", status, "|", ",".join(sorted(set(viol))) or ",".join(failed))
