#!/usr/bin/env python3
"""fills @ROWS@ / refreshes the session-2 table in DESIGN.md from seeded/*/meta.json (session 2 seeds only)"""
import json, os, re
rows = []
for n in sorted(os.listdir("/verif/seeded")):
    m = json.load(open("/verif/seeded/%s/meta.json" % n))
    if "session 2" not in m.get("source", ""):
        continue
    d = m.get("detected_by", {})
    st = d.get("status", "not yet tried")
    if st.startswith("caught"):
        res = "caught: " + ", ".join(d.get("violation_from", [])) + " (quick)"
    elif st.startswith("harness FAILURE"):
        res = "harness FAILURE (" + ", ".join(d.get("harnesses_failing", [])) + "), no VIOLATION line in the trial: " + d.get("note", "replay not finished / not reproduced")
    else:
        res = st + ((": " + d.get("note")) if d.get("note") else "")
    fa = d.get("failing_assertions") or []
    if fa and not st.startswith("missed"):
        res += " — " + fa[0].strip('"')[:140]
    rows.append("| %s | %s | %s |" % (n, m["breaks_property"], res))
p = "/verif/DESIGN.md"
s = open(p).read()
block = "<!-- rows:begin -->\n" + "\n".join(rows) + "\n<!-- rows:end -->"
if "@ROWS@" in s:
    s = s.replace("@ROWS@", block)
else:
    s = re.sub(r"<!-- rows:begin -->.*?<!-- rows:end -->", lambda _: block, s, flags=re.S)
open(p, "w").write(s)
print(len(rows), "rows")
