#!/bin/bash
# usage: confirm_seed.sh <prop id> <n>   -- confirms /tmp/seed_<id>/change<n>.diff in /tmp/wt_<id>
# writes /tmp/seed_<id>/confirm<n>.txt with: suite result with change, demo with change (must fail), demo without (must pass)
id=$1; n=$2; wt=/tmp/wt_$id; sd=/tmp/seed_$id; out=$sd/confirm$n.txt
cd $wt || exit 2
git checkout -q -- . ; git clean -fdq -e target
: > $out
git apply $sd/change$n.diff || { echo "APPLY_FAILED" >> $out; exit 1; }
echo "== suite with change" >> $out
(ulimit -v 12000000; timeout 1500 cargo test --workspace --offline --no-fail-fast 2>&1 | grep -E "^test result|FAILED|panicked" | head -20) >> $out
add_demo() {
  if [ -f $sd/demo$n.diff ]; then git apply $sd/demo$n.diff; tgt="--lib seed_"; 
  else cp $sd/demo$n.rs tests/seed_demo$n.rs; tgt="--test seed_demo$n"; fi
}
add_demo
echo "== demo with change (expected: FAIL)" >> $out
(ulimit -v 12000000; timeout 900 cargo test --offline $tgt 2>&1 | grep -E "^test result|^test .* (ok|FAILED)|error(\[|:)" | head -20) >> $out
git checkout -q -- . ; git clean -fdq -e target
add_demo
echo "== demo without change (expected: ok)" >> $out
(ulimit -v 12000000; timeout 900 cargo test --offline $tgt 2>&1 | grep -E "^test result|^test .* (ok|FAILED)|error(\[|:)" | head -20) >> $out
git checkout -q -- . ; git clean -fdq -e target
echo "== done" >> $out
