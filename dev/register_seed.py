#!/usr/bin/env python3
"""usage: register_seed.py <prop id> <n> <seed name> <change summary> <needs to manifest>
copies /tmp/seed_<id>/change<n>.diff + demo<n>.(rs|diff) + confirm<n>.txt into /verif/seeded/<name>/"""
import sys, os, json, shutil, subprocess
pid, n, name, change, needs = sys.argv[1:6]
sd = "/tmp/seed_%s" % pid
dd = "/verif/seeded/%s" % name
os.makedirs(dd, exist_ok=True)
shutil.copy(os.path.join(sd, "change%s.diff" % n), os.path.join(dd, "patch.diff"))
for ext in ("rs", "diff"):
    p = os.path.join(sd, "demo%s.%s" % (n, ext))
    if os.path.exists(p):
        shutil.copy(p, os.path.join(dd, "demo." + ext))
log = [l.rstrip() for l in open(os.path.join(sd, "confirm%s.txt" % n)) if l.strip() and not l.startswith("13 |")]
head = subprocess.run(["git", "-C", "/repo", "rev-parse", "--short", "HEAD"], capture_output=True, text=True).stdout.strip()
meta = {"breaks_property": pid, "change": change, "needs_to_manifest": needs,
        "source": "independent sub-agent given only the property text and a scratch worktree (session 2)",
        "based_on_repo_commit": head,
        "confirmed_by_me": {"procedure": "dev/confirm_seed.sh: apply patch.diff in a scratch worktree, run the full test suite (must pass 59), run the demo (must fail), revert, run the demo (must pass)", "log": log},
        "detected_by": {"status": "not yet tried"}}
json.dump(meta, open(os.path.join(dd, "meta.json"), "w"), indent=1)
print("registered", dd)
