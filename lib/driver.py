"""Driver for solver-based checks (Kani/CBMC over the real crate).  See ../check."""
import sys, os, re, json, time, shutil, subprocess, tempfile, glob, hashlib, signal
from concurrent.futures import ThreadPoolExecutor, as_completed

VERIF = os.path.dirname(os.path.dirname(os.path.abspath(__file__)))
REPO = os.environ.get("VERIF_REPO", "/repo")
SCRATCH_BASE = os.environ.get("VERIF_SCRATCH", "/var/tmp")
EVID_DIR = os.environ.get("VERIF_EVIDENCE_DIR", os.path.join(VERIF, "evidence"))
REPLAY_DIR = os.path.join(VERIF, "replays")

sys.path.insert(0, os.path.join(VERIF, "lib"))
import specs  # noqa: E402

ENV = dict(os.environ)
ENV["CARGO_NET_OFFLINE"] = "true"
ENV.setdefault("CARGO_TERM_COLOR", "never")


def log(*a):
    print(*a, flush=True)


# ---------------------------------------------------------------------------
# scratch copy of /repo's current working tree + harness injection
# ---------------------------------------------------------------------------

INJECT = '\n#[cfg(kani)]\n#[path = "%s"]\npub(crate) mod %s;\n'


CATCH_UNWIND_FROM = "use std::{io::Cursor, panic::catch_unwind};"
CATCH_UNWIND_TO = ("use std::io::Cursor;\n#[cfg(not(kani))]\nuse std::panic::catch_unwind;\n#[cfg(kani)]\n"
                   "fn catch_unwind<F: FnOnce() -> R, R>(f: F) -> Result<R, ()> {\n    Ok(f())\n}")


def sh(cmd, cwd=None, env=None, timeout=None, out=None):
    """run, return (rc, output)"""
    p = subprocess.run(cmd, cwd=cwd, env=env or ENV, stdout=subprocess.PIPE,
                       stderr=subprocess.STDOUT, timeout=timeout, text=True, errors="replace")
    if out:
        with open(out, "w") as f:
            f.write(p.stdout)
    return p.returncode, p.stdout


def tree_digest(root):
    h = hashlib.sha256()
    for dp, dn, fn in os.walk(os.path.join(root, "src")):
        dn.sort()
        for f in sorted(fn):
            p = os.path.join(dp, f)
            h.update(os.path.relpath(p, root).encode())
            with open(p, "rb") as fh:
                h.update(fh.read())
    for f in ("Cargo.toml", "Cargo.lock"):
        p = os.path.join(root, f)
        if os.path.exists(p):
            with open(p, "rb") as fh:
                h.update(fh.read())
    return h.hexdigest()[:16]


_SCRATCH_LOCKS = []


def prepare_scratch(modules, need_ref=False, tag=None):
    """The scratch path is part of cargo's package id and therefore of every symbol hash in the goto binary; CBMC's
    verdict on one harness (k02e_stored_mirror) was observed to depend on it.  The path is therefore a fixed function of
    property: a check (either tier) repeats exactly the build it ran last time.  A second concurrent run of the same check
    falls back to a random directory."""
    os.makedirs(SCRATCH_BASE, exist_ok=True)
    fixed = os.environ.get("VERIF_SCRATCH_NAME")  # developer aid: choose the scratch path
    scratch = None
    if fixed:
        scratch = os.path.join(SCRATCH_BASE, "pfverif." + fixed)
    elif tag:
        import fcntl
        cand = os.path.join(SCRATCH_BASE, "pfverif." + tag)
        lk = open(cand + ".lock", "a")
        try:
            fcntl.flock(lk, fcntl.LOCK_EX | fcntl.LOCK_NB)
            _SCRATCH_LOCKS.append(lk)
            scratch = cand
        except OSError:
            lk.close()
    if scratch:
        shutil.rmtree(scratch, ignore_errors=True)
        os.makedirs(scratch)
    else:
        scratch = tempfile.mkdtemp(prefix="pfverif.", dir=SCRATCH_BASE)
    dst = os.path.join(scratch, "repo")
    # developer aid: seeded-change trials hold this lock while a patch is applied to /repo
    import fcntl
    with open("/tmp/seed.lock", "a") as lk:
        if not os.environ.get("VERIF_NO_LOCK"):
            try:
                fcntl.flock(lk, fcntl.LOCK_EX)
            except OSError:
                pass
        rc, out = sh(["rsync", "-a", "--exclude", "/target", "--exclude", "/.git",
                      "--exclude", "/samples", REPO + "/", dst + "/"])
    if rc != 0:
        raise RuntimeError("rsync failed: " + out)
    digest = tree_digest(dst)
    # snapshot of the harness sources for this run (edits to /verif during a run must not leak in)
    hdir = os.path.join(scratch, "harness")
    shutil.copytree(os.path.join(VERIF, "harness"), hdir)
    # inject harness modules as children of the module they exercise
    with open(os.path.join(dst, "src", "lib.rs"), "a") as f:
        f.write(INJECT % (os.path.join(hdir, "common.rs"), "verif_common"))
    for m in sorted(modules):
        hp = os.path.join(hdir, m + ".rs")
        sp = os.path.join(dst, "src", m + ".rs")
        if not os.path.exists(hp):
            raise RuntimeError("missing harness file " + hp)
        if not os.path.exists(sp):
            raise RuntimeError("source module src/%s.rs not found in /repo (renamed?)" % m)
        with open(sp, "a") as f:
            f.write(INJECT % (hp, "verif_harness"))
    # C04: plain-typed export modules, the same text is compiled into the frozen reference crate
    xdir = os.path.join(scratch, "export")
    shutil.copytree(os.path.join(VERIF, "reference", "export"), xdir)
    with open(os.path.join(dst, "src", "lib.rs"), "a") as f:
        f.write(INJECT % (os.path.join(xdir, "common.rs"), "verif_export_common"))
    for fn in sorted(os.listdir(xdir)):
        if fn == "common.rs":
            continue
        sp = os.path.join(dst, "src", fn)
        if not os.path.exists(sp):
            raise RuntimeError("source module src/%s not found in /repo (renamed?)" % fn)
        with open(sp, "a") as f:
            f.write(INJECT % (os.path.join(xdir, fn), "verif_export"))
    # Kani 0.68 ICEs on the catch_unwind intrinsic: scratch-only substitution of the import by a shim
    # that calls the closure (cfg(kani) only; native builds/replays keep the real catch_unwind)
    lp = os.path.join(dst, "src", "lib.rs")
    lt = open(lp).read()
    if CATCH_UNWIND_FROM in lt:
        lt = lt.replace(CATCH_UNWIND_FROM, CATCH_UNWIND_TO, 1)
    # scratch-only, cfg(kani)-only: lets a harness stub name `Vec<T, A: Allocator>` (stub_vec_push_split in common.rs)
    lt = "#![cfg_attr(kani, feature(allocator_api))]\n" + lt
    open(lp, "w").write(lt)
    # dependency shims ([patch.crates-io]) — crc32fast uses inline asm, zstd is FFI
    shims = os.path.join(VERIF, "shims")
    patch = "\n[patch.crates-io]\n"
    n = 0
    for name in ("crc32fast", "zstd"):
        p = os.path.join(shims, name)
        if os.path.isdir(p):
            patch += '%s = { path = "%s" }\n' % (name, p)
            n += 1
    rp = os.path.join(scratch, "preflate_ref")  # private copy: cargo writes Cargo.lock/target next to it
    shutil.copytree(os.path.join(VERIF, "reference", "preflate_ref"), rp, ignore=shutil.ignore_patterns("target", "Cargo.lock"))
    for fn in os.listdir(os.path.join(rp, "src")):
        pth = os.path.join(rp, "src", fn)
        t = open(pth).read()
        if '#[path = "../../export/' in t:
            open(pth, "w").write(t.replace('#[path = "../../export/', '#[path = "%s/' % xdir))
    ct = open(os.path.join(dst, "Cargo.toml")).read()
    ct = ct.replace("[dependencies]\n", '[dependencies]\npreflate_ref = { path = "%s" }\n' % rp, 1)
    with open(os.path.join(dst, "Cargo.toml"), "w") as f:
        f.write(ct)
        if n:
            f.write(patch)
        f.write("\n[workspace]\n")
    return scratch, dst, digest


# ---------------------------------------------------------------------------
# generated constants (fixed Huffman tables etc.) from the scratch copy
# ---------------------------------------------------------------------------

def run_generators(scratch, dst):
    """Native programs compiled against the scratch copy that print constants
    pasted into harnesses (DESIGN §C07).  Returns env additions."""
    gen_dir = os.path.join(scratch, "gen")
    os.makedirs(gen_dir, exist_ok=True)
    envadd = {"VERIF_GEN": gen_dir}
    gsrc = os.path.join(scratch, "gen_tables.rs")
    shutil.copy(os.path.join(VERIF, "native", "gen_tables.rs"), gsrc)
    out_rs = os.path.join(gen_dir, "fixed_tables.rs")
    # native copy of the scratch tree: huffman_encoding gets a child module that can see the
    # private table fields; a tiny bin prints them.  Only normal dependencies are built.
    nat = os.path.join(scratch, "native")
    shutil.copytree(dst, nat, ignore=shutil.ignore_patterns("target"))
    with open(os.path.join(nat, "src", "huffman_encoding.rs"), "a") as f:
        f.write('\n#[path = "%s"]\npub mod verif_gen;\n' % gsrc)
    with open(os.path.join(nat, "src", "lib.rs"), "a") as f:
        f.write('\npub use huffman_encoding::verif_gen::verif_gen_tables;\n')
    os.makedirs(os.path.join(nat, "src", "bin"), exist_ok=True)
    shutil.copy(os.path.join(VERIF, "native", "verif_gen_main.rs"), os.path.join(nat, "src", "bin", "verif_gen.rs"))
    rc, out = sh(["cargo", "run", "--offline", "--quiet", "--bin", "verif_gen", "--target-dir",
                  os.path.join(scratch, "tnat"), "--", out_rs], cwd=nat, timeout=900, out=os.path.join(scratch, "gen.log"))
    if rc != 0 or not os.path.exists(out_rs):
        raise RuntimeError("table generator failed (inconclusive):\n" + out[-3000:])
    shutil.rmtree(os.path.join(scratch, "tnat"), ignore_errors=True)
    return envadd


# ---------------------------------------------------------------------------
# Kani invocation
# ---------------------------------------------------------------------------

CHECK_RE = re.compile(r"^Check (\d+): ([^\n]+)\n\t - Status: (\S+)\n\t - Description: \"(.*?)\"\n\t - Location: ([^\n]*)$", re.M | re.S)


def parse_kani(out):
    r = {"checks": 0, "failed": [], "undetermined": [], "covers_sat": 0, "covers_total": 0,
         "unsat_covers": [], "verdict": None, "vars": 0, "clauses": 0, "solver_s": 0.0,
         "symex_s": 0.0, "verif_s": None, "unreachable": 0}
    for m in CHECK_RE.finditer(out):
        num, name, status, desc, loc = m.groups()
        if ".cover." in name or name.endswith(".cover") or re.search(r"\.cover\.\d+$", name):
            r["covers_total"] += 1
            if status == "SATISFIED":
                r["covers_sat"] += 1
            else:
                r["unsat_covers"].append({"name": name, "status": status, "desc": desc, "loc": loc})
            continue
        r["checks"] += 1
        if status == "FAILURE":
            r["failed"].append({"name": name, "desc": desc, "loc": loc})
        elif status in ("UNDETERMINED", "ERROR"):
            r["undetermined"].append({"name": name, "desc": desc, "loc": loc, "status": status})
        elif status == "UNREACHABLE":
            r["unreachable"] += 1
    m = re.search(r"VERIFICATION:- (\w+)", out)
    if m:
        r["verdict"] = m.group(1)
    for m in re.finditer(r"^(\d+) variables, (\d+) clauses", out, re.M):
        r["vars"] = max(r["vars"], int(m.group(1)))
        r["clauses"] = max(r["clauses"], int(m.group(2)))
    r["solver_s"] = round(sum(float(x) for x in re.findall(r"^Runtime decision procedure: ([\d.]+)s", out, re.M)), 3)
    r["symex_s"] = round(sum(float(x) for x in re.findall(r"^Runtime Symex: ([\d.]+)s", out, re.M)), 3)
    r["queries"] = len(re.findall(r"^Runtime decision procedure:", out, re.M))
    m = re.search(r"Verification Time: ([\d.]+)s", out)
    if m:
        r["verif_s"] = float(m.group(1))
    return r


def run_limited(cmd, cwd, env, logpath, timeout, mem_gb):
    """run under ulimit -v and a wall clock cap, kill the whole process group on timeout"""
    lim = int(mem_gb * 1024 * 1024)
    shcmd = "ulimit -s unlimited 2>/dev/null || ulimit -s 1048576; ulimit -v %d; exec \"$@\"" % lim
    with open(logpath, "w") as lf:
        p = subprocess.Popen(["bash", "-c", shcmd, "bash"] + cmd, cwd=cwd, env=env, stdout=lf,
                             stderr=subprocess.STDOUT, start_new_session=True)
        try:
            rc = p.wait(timeout=timeout)
            to = False
        except subprocess.TimeoutExpired:
            to = True
            try:
                os.killpg(p.pid, signal.SIGKILL)
            except ProcessLookupError:
                pass
            rc = p.wait()
    with open(logpath, errors="replace") as f:
        out = f.read()
    return rc, out, to


def find_goto(tdir, hname):
    c = glob.glob(os.path.join(tdir, "kani", "x86_64-unknown-linux-gnu", "debug", "build",
                               "preflate-rs", "*", "out", "*%s.out" % hname))
    c = [x for x in c if not x.endswith(".symtab.out")]
    c.sort(key=os.path.getmtime)
    return c[-1] if c else None


def resolve_unwindset(goto, spec, logpath):
    """map {regex on loop's function name -> bound} to CBMC loop ids (ids embed a crate hash)"""
    rc, out = sh(["cbmc", "--show-loops", goto], timeout=300)
    with open(logpath, "w") as f:
        f.write(out)
    loops = re.findall(r"^Loop (\S+):\n\s+file (.*?) line (\d+)(?: column \d+)? function (.*)$", out, re.M)
    sel = {}
    unmatched = set(spec.keys())
    for lid, fil, line, func in loops:
        for rx, bound in spec.items():
            if re.search(rx, func) or re.search(rx, "%s:%s" % (fil, line)):
                sel[lid] = max(sel.get(lid, 0), bound)
                unmatched.discard(rx)
    return sel, sorted(unmatched), len(loops)


def run_harness(h, base_t, dst, scratch, envadd, playback=False, scale=1.0, sliced_playback=False):
    name = h["name"]
    t0 = time.time()
    tdir = os.path.join(scratch, "t_" + name)
    if scale != 1.0:
        shutil.rmtree(tdir, ignore_errors=True)
    logd = os.path.join(scratch, "logs")
    os.makedirs(logd, exist_ok=True)
    sh(["cp", "-a", base_t, tdir])
    env = dict(ENV)
    env.update(envadd)
    res = {"name": name, "status": "ERROR", "wall_s": 0}
    fq = {"common": "verif_common::", "lib": "verif_harness::"}.get(h["module"], h["module"] + "::verif_harness::") + name
    common = ["cargo", "kani", "--harness", fq, "--exact", "-Z", "stubbing", "--target-dir", tdir, "--verbose"]
    common += h.get("kani_args", [])
    try:
        unwind = h.get("unwind", 8)
        uws = dict(h.get("unwindset") or {})
        if uws:
            for k, v in specs.GLOBAL_UNWINDSET.items():
                uws.setdefault(k, v)
        cmd = list(common)
        if uws:
            rc, out, to = run_limited(common + ["--only-codegen"], dst, env,
                                      os.path.join(logd, name + ".codegen.log"), 900, 16)
            goto = find_goto(tdir, name)
            if rc != 0 or not goto:
                res["status"] = "BUILD_FAILED"
                errl = [i for i, l in enumerate(out.splitlines()) if re.match(r"^error(\[E\d+\])?: ", l)]
                ol = out.splitlines()
                res["detail"] = ("\n".join("\n".join(ol[i:i + 14]) for i in errl[:4]) or out[-4000:])[:4000]
                return res
            sel, unmatched, nloops = resolve_unwindset(goto, uws, os.path.join(logd, name + ".loops.log"))
            res["unwindset"] = {"resolved_loops": len(sel), "total_loops": nloops, "spec": uws}
            # a pattern that matches no loop leaves that loop (if any) at the default bound; with unwinding
            # assertions on, a too-small bound is then a reported failure, never a silent pass
            res["unwindset"]["unmatched_patterns"] = unmatched
            # CBMC library loops (added after codegen, so --show-loops cannot see them): slice == is memcmp
            sel.setdefault("memcmp.0", max(unwind, specs.MEMCMP_UNWIND))
            if "unstable-options" not in cmd:
                cmd += ["-Z", "unstable-options"]
            cmd += ["--cbmc-args"] + list(h.get("cbmc_extra", [])) + ["--unwind", str(unwind),
                    "--unwindset", ",".join("%s:%d" % kv for kv in sorted(sel.items()))]
        else:
            cmd += ["--default-unwind", str(unwind)]
        if playback:
            # concrete playback must come before --cbmc-args
            i = cmd.index("--cbmc-args") if "--cbmc-args" in cmd else len(cmd)
            cmd[i:i] = ["-Z", "concrete-playback", "--concrete-playback=print"]
            if sliced_playback:
                # Kani switches formula slicing off for playback, which some harnesses cannot afford (k03g: > 40 GB).
                # With slicing back on, values the failing check does not depend on may be missing from the trace; the
                # playback runtime then stops with "Not enough det vals" (filtered as an artefact) - and a native failure
                # is only counted if it carries the failing check's own message (see do_check).
                if "--cbmc-args" not in cmd:
                    cmd += ["--cbmc-args"]
                cmd += ["--slice-formula"]
        logpath = os.path.join(logd, name + ((".playback_sliced" if sliced_playback else ".playback") if playback else "") + ".log")
        rc, out, to = run_limited(cmd, dst, env, logpath, h.get("timeout", 300) * (3 if playback else 1) * (2 if scale != 1.0 else 1),
                                  min(float(os.environ.get("VERIF_MEM_CAP_GB", "48")), h.get("mem_gb", 8) * (2 if playback else 1) * scale))
        res["log"] = logpath
        pr = parse_kani(out)
        res.update(pr)
        if to:
            res["status"] = "TIMEOUT"
        elif re.search(r"error(\[E\d+\])?: ", out) and pr["verdict"] is None and "Compiling" in out and "could not compile" in out:
            res["status"] = "BUILD_FAILED"
            res["detail"] = "\n".join(l for l in out.splitlines() if l.startswith("error"))[:3000]
        elif pr["verdict"] == "SUCCESSFUL" and not pr["failed"] and not pr["undetermined"]:
            if pr["unsat_covers"]:
                res["status"] = "VACUOUS"
            elif h.get("expect_covers") is not None and pr["covers_total"] < h["expect_covers"]:
                res["status"] = "VACUOUS"
                res["detail"] = "expected >= %d cover witnesses, saw %d" % (h["expect_covers"], pr["covers_total"])
            else:
                res["status"] = "SUCCESS"
        elif pr["verdict"] == "FAILED" and pr["failed"]:
            res["status"] = "FAILURE"
        elif "out of memory" in out.lower() or "std::bad_alloc" in out or "Killed" in out:
            res["status"] = "OOM"
        else:
            res["status"] = "INCONCLUSIVE"
            res["detail"] = out[-2500:]
        if playback:
            res["playback_out"] = out
        return res
    finally:
        res["wall_s"] = round(time.time() - t0, 1)
        if not os.environ.get("VERIF_KEEP"):
            shutil.rmtree(tdir, ignore_errors=True)


# ---------------------------------------------------------------------------
# known findings
# ---------------------------------------------------------------------------

def load_known():
    p = os.path.join(VERIF, "known_findings.json")
    if not os.path.exists(p):
        return {"findings": [], "fixed": []}
    return json.load(open(p))


def match_known(known, prop, hname, fail):
    """A listed finding suppresses exactly the failing checks whose (harness, function role,
    description) it names; anything else of the same property is still a violation."""
    for k in known.get("findings", []):
        if prop not in k.get("properties", [k.get("property")]):
            continue
        if k.get("harness") and not re.fullmatch(k["harness"], hname):
            continue
        if not re.search(k["where"], fail["loc"] + " " + fail["name"]):
            continue
        if k.get("desc") and not re.search(k["desc"], fail["desc"]):
            continue
        return k
    return None


# ---------------------------------------------------------------------------
# counterexample replay against the real (native) build
# ---------------------------------------------------------------------------

PLAYBACK_RE = re.compile(r"Concrete playback unit test for `[^`]*`:\n```\n(.*?)\n```", re.S)



# ---------------------------------------------------------------------------
# stub-aware native replay
# ---------------------------------------------------------------------------
STUB_LINE_RE = re.compile(r"^\s*- Stub: (.+?) -> (.+?)\s*$", re.M)
STD_STUBS = ("add_context", "fmt :: format", "From <", "alloc ::", "std ::", "core ::", "crc32fast")


def harness_stubs(logtext):
    """(original path, stub path) pairs Kani reports for a harness, limited to free functions of the crate
    (`crate::module::function`) - the ones that can be redirected textually in a native build."""
    out = []
    for orig, stub in STUB_LINE_RE.findall(logtext or ""):
        if any(k in orig for k in STD_STUBS):
            continue
        o = orig.replace(" ", "")
        st = stub.replace(" ", "")
        m = re.match(r"^crate::(\w+)::(\w+)$", o)
        if m:
            out.append((m.group(1), m.group(2), st))
            continue
        # inherent method: crate::module::Type::method (redirected inside its impl block, see apply_stubs_natively)
        m = re.match(r"^crate::(\w+)::([A-Z]\w*)::(\w+)$", o)
        if m:
            out.append((m.group(1), m.group(2) + "::" + m.group(3), st))
    return out


def apply_stubs_natively(rdir, scratch, harness_module, stubs):
    """In the replay copy only: rename each stubbed function and add a forwarder with the stub's own header that calls
    the stub, so that the native run takes the same path as the solver's run (kani::any() inside the stubs is fed from
    the recorded values in the same order).  Returns the list of redirections made."""
    done = []
    hdir = os.path.join(scratch, "harness")
    htexts = {fn[:-3]: open(os.path.join(hdir, fn)).read() for fn in os.listdir(hdir) if fn.endswith(".rs")}
    for mod, fname, stub in stubs:
        sp = os.path.join(rdir, "src", mod + ".rs")
        if not os.path.exists(sp):
            continue
        sname = stub.split("::")[-1]
        # where is the stub defined?
        smod = None
        if "::" in stub:
            mm = re.match(r"^crate::(\w+)::verif_harness::\w+$", stub) or re.match(r"^crate::(verif_common)::\w+$", stub)
            if mm:
                smod = "common" if mm.group(1) == "verif_common" else mm.group(1)
        else:
            smod = harness_module
        if smod is None or smod not in htexts:
            continue
        hm = re.search(r"^\s*(?:pub(?:\([a-z]+\))?\s+)?(?:unsafe\s+)?fn\s+%s\s*(<[^>]*>)?\s*\((.*?)\)\s*(->\s*[^{]+?)?\s*\{" % re.escape(sname), htexts[smod], re.M | re.S)
        if not hm:
            continue
        generics, params, ret = hm.group(1) or "", hm.group(2), hm.group(3) or ""
        names = []
        depth = 0
        cur = ""
        for ch in params + ",":
            if ch in "<([":
                depth += 1
            elif ch in ">)]":
                depth -= 1
            if ch == "," and depth == 0:
                if cur.strip():
                    names.append(cur.strip().split(":")[0].strip().replace("mut ", ""))
                cur = ""
            else:
                cur += ch
        src = open(sp).read()
        if "::" in fname:
            # a method: keep the original header (receiver included), rename the real one, and put a forwarder with the
            # original header in front of it inside the same impl block; the stub takes the receiver as first argument
            tname, mname = fname.split("::")
            om = re.search(r"^([ \t]+)((?:pub(?:\([a-z]+\))?\s+)?)fn\s+%s\b(.*?)\{" % re.escape(mname), src, re.M | re.S)
            if not om:
                continue
            header_rest = om.group(3)
            pm = re.search(r"\((.*)\)", header_rest, re.S)
            if not pm:
                continue
            mnames, depth, cur = [], 0, ""
            for ch in pm.group(1) + ",":
                if ch in "<([":
                    depth += 1
                elif ch in ">)]":
                    depth -= 1
                if ch == "," and depth == 0:
                    c = cur.strip()
                    if c:
                        mnames.append("self" if re.match(r"^&?\s*(mut\s+)?self$", c) else c.split(":")[0].strip().replace("mut ", ""))
                    cur = ""
                else:
                    cur += ch
            path = "crate::verif_common::" + sname if smod == "common" else "crate::%s::verif_harness::%s" % (smod, sname)
            fwd = "%s#[allow(dead_code)]\n%s%sfn %s%s{\n%s    %s(%s)\n%s}\n\n" % (om.group(1), om.group(1), om.group(2), mname, header_rest, om.group(1), path, ", ".join(mnames), om.group(1))
            renamed = om.group(1) + "#[allow(dead_code)]\n" + om.group(1) + om.group(2) + "fn " + mname + "__verif_real" + header_rest + "{"
            src = src[:om.start()] + fwd + renamed + src[om.end():]
            open(sp, "w").write(src)
            done.append("%s::%s -> %s" % (mod, fname, path))
            continue
        om = re.search(r"^(\s*)((?:pub(?:\([a-z]+\))?\s+)?)fn\s+%s\b" % re.escape(fname), src, re.M)
        if not om:
            continue
        src = src[:om.start()] + om.group(1) + om.group(2) + "fn " + fname + "__verif_real" + src[om.end():]
        path = "crate::verif_common::" + sname if smod == "common" else "crate::%s::verif_harness::%s" % (smod, sname)
        src += "\n#[allow(dead_code, private_interfaces)]\n%sfn %s%s(%s) %s {\n    %s(%s)\n}\n" % (om.group(2), fname, generics, params, ret, path, ", ".join(names))
        open(sp, "w").write(src)
        done.append("%s::%s -> %s" % (mod, fname, path))
    return done


def replay_native(tests, module, scratch, tag, envadd=None, descs=None, stubs=None):
    """Run the generated concrete-playback unit tests natively (`cargo kani playback`: an ordinary
    `cargo test` build of the scratch copy with cfg(kani) and kani::any() fed from the solver's
    assignment).  Stubs are NOT active natively: the real add_context/format/From<io::Error> run.
    Profiles: dev (what Kani models) and a release-like one (opt-level 3, no debug assertions,
    no overflow checks) selected through CARGO_PROFILE_DEV_* because playback has no --release."""
    rdir = os.path.join(scratch, "replay_" + tag)
    src = os.path.join(scratch, "repo")
    shutil.copytree(src, rdir, ignore=shutil.ignore_patterns("target"))
    if module == "common":
        horig = os.path.join(scratch, "harness", "common.rs")
        sp = os.path.join(rdir, "src", "lib.rs")
    else:
        horig = os.path.join(scratch, "harness", module + ".rs")
        sp = os.path.join(rdir, "src", module + ".rs")
    hcopy = os.path.join(rdir, "verif_harness_%s.rs" % module)
    body = open(horig).read() + "\n#[cfg(test)]\nmod verif_playback {\n    use super::*;\n" + "\n".join(tests) + "\n}\n"
    open(hcopy, "w").write(body)
    s = open(sp).read().replace('#[path = "%s"]' % horig, '#[path = "%s"]' % hcopy)
    open(sp, "w").write(s)
    names = [re.search(r"fn (kani_concrete_playback_\w+)", t).group(1) for t in tests]
    results = {n: {} for n in names}
    redirected = apply_stubs_natively(rdir, scratch, module, stubs) if stubs else []
    for prof in ("dev", "release_like"):
        env = dict(ENV)
        env.update(envadd or {"VERIF_GEN": os.path.join(scratch, "gen")})
        if prof == "release_like":
            env.update({"CARGO_PROFILE_DEV_OPT_LEVEL": "3", "CARGO_PROFILE_DEV_DEBUG_ASSERTIONS": "false",
                        "CARGO_PROFILE_DEV_OVERFLOW_CHECKS": "false"})
        for n in names:
            cmd = ["cargo", "kani", "playback", "-Z", "concrete-playback", "--lib", "--", n, "--nocapture"]
            try:
                rc, out = sh(cmd, cwd=rdir, env=env, timeout=1800)
            except subprocess.TimeoutExpired:
                rc, out = -1, "timeout"
            # verdict = the line libtest prints for exactly this test; an abort (panic=abort paths,
            # stack overflow, SIGSEGV) kills the test binary after "running 1 test" without a verdict
            line = re.search(r"^test \S*%s \.\.\. (ok|FAILED)" % re.escape(n), out, re.M)
            started = re.search(r"^running 1 test", out, re.M) is not None
            aborted = started and line is None and re.search(r"\(signal: \d+|process didn't exit successfully", out) is not None
            # a native failure raised by the playback runtime itself (values missing / left over / of the wrong size, or
            # an assumption of the harness not holding for the replayed values) is a replay artefact, not a reproduction
            artefact = re.search(r"Not enough det vals found|bytes in the following det vals vec|concrete values left over|kani::assume should always hold", out) is not None
            msg = any(d.strip('"') and d.strip('"') in out for d in (descs or []))
            results[n][prof] = {"rc": rc, "failed": bool(((line and line.group(1) == "FAILED") or aborted) and not artefact), "artefact": artefact, "msg_match": msg,
                                "ran": bool(line) or aborted, "aborted": bool(aborted), "tail": out[-1200:], "stubs_applied_natively": redirected}
    shutil.rmtree(os.path.join(rdir, "target"), ignore_errors=True)
    return results, names


# ---------------------------------------------------------------------------
# evidence
# ---------------------------------------------------------------------------

def write_evidence(prop, tier, seed, results, wall, violations, extra):
    os.makedirs(EVID_DIR, exist_ok=True)
    hs = []
    nontrivial = 0
    obligations = discharged = 0
    for h, r in results:
        ok = r["status"] == "SUCCESS"
        if ok:
            nontrivial += r.get("covers_sat", 0)
        obligations += r.get("checks", 0)
        discharged += r.get("checks", 0) - len(r.get("failed", [])) - len(r.get("undetermined", [])) if r.get("verdict") else 0
        hs.append({
            "harness": h["name"], "module": h["module"], "status": r["status"],
            "claim": h.get("claim", ""), "functions_encoded": h.get("functions", []),
            "bounds": h.get("bounds", ""), "outside_bounds": h.get("outside", ""),
            "stubs_and_assumptions": h.get("assumptions", []),
            "default_unwind": h.get("unwind", 8), "unwindset": r.get("unwindset"),
            "cbmc_checks": r.get("checks", 0), "failed_checks": r.get("failed", [])[:10],
            "cover_witnesses": "%d/%d" % (r.get("covers_sat", 0), r.get("covers_total", 0)),
            "sat_variables": r.get("vars", 0), "sat_clauses": r.get("clauses", 0),
            "solver_queries": r.get("queries", 0), "solver_s": r.get("solver_s", 0),
            "symex_s": r.get("symex_s", 0), "wall_s": r.get("wall_s", 0),
            "known_findings": r.get("known", []), "detail": r.get("detail", "")[:600] if r["status"] != "SUCCESS" else "",
        })
    ev = {
        "property_id": prop, "tier": tier, "seed": seed, "level": "model_checking",
        "coverage": {
            "evaluations": sum(max(r.get("queries", 0), 1) for _, r in results),
            "harnesses_run": len(results),
            "harnesses_success": sum(1 for _, r in results if r["status"] == "SUCCESS"),
            "distinct_nontrivial": nontrivial,
            "rule": "one evaluation = one SAT query discharged by CBMC 6.11 + CaDiCaL over the bounded symbolic execution of the "
                    "named real functions with all inputs symbolic (UNSAT of the negated assertions incl. unwinding assertions = "
                    "holds for every input inside the stated bound; counted from 'Runtime decision procedure' lines in the solver log). "
                    "distinct_nontrivial = number of distinct kani::cover! reachability witnesses that the solver SATISFIED in harnesses "
                    "that ended SUCCESS: each is a different named scenario (e.g. 'hops == 2', 'five-byte varint') for which the solver "
                    "exhibited a concrete input reaching the assertions, i.e. the harness is not vacuous there. A harness with an "
                    "unsatisfied witness is reported VACUOUS (exit 2), never counted.",
            "samples": [{"harness": x["harness"], "claim": x["claim"], "bounds": x["bounds"],
                         "functions": x["functions_encoded"][:6]} for x in hs[:6]],
            "exhaustive": False,
            "obligations": obligations,
            "discharged": max(discharged, 0),
            "checker_cmd": "cargo kani --harness <name> -Z stubbing [--cbmc-args --unwind N --unwindset ...] (kani 0.68.0, CBMC 6.11.0, cadical)",
            "trusted_base": ["Kani 0.68.0 MIR->goto translation", "CBMC 6.11.0", "CaDiCaL", "harness code and stubs under /verif/harness",
                             "shim crates under /verif/shims (crc32fast bit-serial, zstd framing model)"],
            "explanation": "bounded model checking of the real Rust code; nothing outside the per-harness bounds is claimed",
            "harnesses": hs,
            "repo_tree_digest": extra.get("digest"),
            "total_solver_s": round(sum(x["solver_s"] for x in hs), 2),
            "total_sat_variables": sum(x["sat_variables"] for x in hs),
            "encoding": "regenerated from /repo working tree on this run (scratch copy + cfg(kani) child modules)",
        },
        "assumptions": sorted(set(a for h, _ in results for a in h.get("assumptions", [])) | set(specs.GLOBAL_ASSUMPTIONS)),
        "wall_s": round(wall, 1),
        "violations": violations,
    }
    ev["coverage"].update(extra.get("coverage", {}))
    p = os.path.join(EVID_DIR, prop + ".json")
    with open(p, "w") as f:
        json.dump(ev, f, indent=1)
    return p


# ---------------------------------------------------------------------------
# main
# ---------------------------------------------------------------------------

def select(prop, tier, only=None):
    hs = []
    for h in specs.HARNESSES:
        if prop != "ALL" and prop not in h["props"]:
            continue
        if prop == "ALL" and h["name"] == "k00_smoke":
            continue
        if h.get("tier", "quick") == "thorough" and tier != "thorough":
            continue
        # experimental = kept for the record and for `--only`, never part of a registered command:
        # harnesses that do not finish (or are unstable) on this machine
        if h.get("tier") == "experimental" and not (only and re.search(only, h["name"])):
            continue
        if h.get("tier") == "quick_only" and tier != "quick":
            continue
        if only and not re.search(only, h["name"]):
            continue
        hs.append(h)
    return hs


def do_check(prop, tier, only, jobs):
    t0 = time.time()
    seed = int(os.environ.get("VERIF_SEED", "0") or 0)
    hs = select(prop, tier, only)
    if not hs:
        log("no harness serves %s in tier %s" % (prop, tier))
        return 2
    modules = sorted(set(h["module"] for h in specs.HARNESSES) - {"common"})  # inject all: a module rename breaks loudly
    need_ref = any(h.get("needs_ref") for h in hs)
    need_gen = any(h.get("needs_gen") for h in hs)
    scratch = None
    reuse = os.environ.get("VERIF_REUSE")  # developer aid: reuse a kept scratch (skips copy/generators/base build)
    try:
        if reuse:
            scratch, dst, digest = reuse, os.path.join(reuse, "repo"), "reused"
            os.environ["VERIF_KEEP"] = "1"
        else:
            scratch, dst, digest = prepare_scratch(modules, need_ref=need_ref, tag=prop)
        log("[%s/%s] scratch %s (tree %s), %d harnesses" % (prop, tier, scratch, digest, len(hs)))
        # C04: announced format change => pass without equivalences (DESIGN §C04)
        extra = {"digest": digest, "coverage": {}}
        if prop == "C04":
            ann = specs.version_gate(dst, VERIF)
            extra["coverage"]["format_versions"] = ann
            if ann.get("announced_change"):
                log("format version constants differ from the reference build: change is announced; equivalences not required")
                write_evidence(prop, tier, seed, [], time.time() - t0, 0, extra) if False else None
        if reuse:
            envadd = {"VERIF_GEN": os.path.join(scratch, "gen")}
        else:
            envadd = run_generators(scratch, dst)  # always: harness modules include the generated constants
        # base build: dependencies + crate once, with the smoke harness
        base_t = os.path.join(scratch, "t_base")
        env = dict(ENV)
        env.update(envadd)
        rc, out, to = (0, "", False) if reuse else run_limited(["cargo", "kani", "--harness", "verif_common::k00_smoke", "--exact", "-Z", "stubbing", "--target-dir", base_t,
                                   "--only-codegen"], dst, env, os.path.join(scratch, "base.log"), 1200, 24)
        if rc != 0:
            log("BUILD FAILED (inconclusive, not a verdict on the property):")
            log("\n".join(l for l in out.splitlines() if "error" in l or "-->" in l)[:4000] or out[-3000:])
            results = [(h, {"name": h["name"], "status": "BUILD_FAILED", "detail": out[-1500:]}) for h in hs]
            write_evidence(prop, tier, seed, results, time.time() - t0, 0, extra)
            return 2
        results = []
        order = sorted(hs, key=lambda h: -h.get("timeout", 300))
        with ThreadPoolExecutor(max_workers=jobs) as ex:
            futs = {ex.submit(run_harness, h, base_t, dst, scratch, envadd): h for h in order}
            for f in as_completed(futs):
                h = futs[f]
                try:
                    r = f.result()
                except Exception as e:  # noqa
                    r = {"name": h["name"], "status": "ERROR", "detail": repr(e)}
                results.append((h, r))
                log("  %-34s %-12s checks=%-5s covers=%s/%s vars=%-8s solver=%ss wall=%ss" % (
                    h["name"], r["status"], r.get("checks", "-"), r.get("covers_sat", "-"), r.get("covers_total", "-"),
                    r.get("vars", "-"), r.get("solver_s", "-"), r.get("wall_s", "-")))
        # resource exhaustion is not a verdict: a harness that hit its memory cap or its wall cap while the machine was
        # shared with others is run once more on its own with 2.5x the memory (<= 48 GB) and twice the time
        retry = [(h, r) for h, r in results if r["status"] in ("OOM", "TIMEOUT")]
        if retry and not os.environ.get("VERIF_NO_RETRY"):
            results = [(h, r) for h, r in results if r["status"] not in ("OOM", "TIMEOUT")]
            for h, r0 in retry:
                log("  retrying %s alone (was %s)" % (h["name"], r0["status"]))
                try:
                    r = run_harness(h, base_t, dst, scratch, envadd, scale=2.5)
                except Exception as e:  # noqa
                    r = {"name": h["name"], "status": "ERROR", "detail": repr(e)}
                r["retried_after"] = r0["status"]
                results.append((h, r))
                log("  %-34s %-12s checks=%-5s covers=%s/%s vars=%-8s solver=%ss wall=%ss (retry)" % (
                    h["name"], r["status"], r.get("checks", "-"), r.get("covers_sat", "-"), r.get("covers_total", "-"),
                    r.get("vars", "-"), r.get("solver_s", "-"), r.get("wall_s", "-")))
        # failures are replayed cheapest harness first: the replay budget then goes to the counterexamples that can be
        # replayed quickly (an unsliced playback of a 2 M-variable harness takes half an hour and often ends inconclusive)
        results.sort(key=lambda x: (0 if x[1].get("status") != "FAILURE" else 1, float(x[1].get("wall_s") or 0), x[0]["name"]))
        known = load_known()
        violations = 0
        inconclusive = 0
        replays_done = 0
        for h, r in results:
            if r["status"] == "SUCCESS":
                continue
            if r["status"] != "FAILURE":
                inconclusive += 1
                log("INCONCLUSIVE harness=%s status=%s %s" % (h["name"], r["status"], (r.get("detail") or "")[:1500]))
                if r.get("unsat_covers"):
                    log("   unsatisfied cover witnesses: %s" % r["unsat_covers"][:4])
                continue
            new = []
            r["known"] = []
            for fl in r["failed"]:
                k = match_known(known, prop, h["name"], fl)
                if k:
                    if k["id"] not in r["known"]:
                        r["known"].append(k["id"])
                        log("KNOWN-FINDING: property=%s %s [%s]" % (prop, k["what"], k["id"]))
                else:
                    new.append(fl)
            if not new:
                continue
            log("FAILED harness=%s: %d failing checks not in known_findings.json" % (h["name"], len(new)))
            for fl in new[:8]:
                log("   - %s | %s | %s" % (fl["name"], fl["desc"], fl["loc"]))
            # replay: concrete playback, then native run of the generated test against the real build
            replays_done += 1
            if replays_done > int(os.environ.get("VERIF_MAX_REPLAYS", "3")):
                inconclusive += 1
                log("NOT-REPLAYED harness=%s (replay budget used up by earlier failures of this run; run with --only to replay it)" % h["name"])
                continue
            rp = run_harness(h, base_t, dst, scratch, envadd, playback=True)
            tests = PLAYBACK_RE.findall(rp.get("playback_out", ""))
            sliced = False
            if not tests:  # OOM / timeout / the Kani driver itself dying on the size of the unsliced trace
                log("  playback of %s without formula slicing ended %s; trying with slicing" % (h["name"], rp.get("status")))
                rp = run_harness(h, base_t, dst, scratch, envadd, playback=True, sliced_playback=True)
                tests = PLAYBACK_RE.findall(rp.get("playback_out", ""))
                sliced = True
            os.makedirs(REPLAY_DIR, exist_ok=True)
            rpath = os.path.join(REPLAY_DIR, "%s_%s.json" % (prop, h["name"]))
            reproduced = False
            rec = {"property": prop, "harness": h["name"], "module": h["module"], "failed_checks": new[:20],
                   "tree_digest": digest, "tests": [], "claim": h.get("claim", "")}
            tests = [t for t in tests if "Check for `cover`" not in t][:4]
            if tests:
                try:
                    hstubs = harness_stubs(open(r["log"], errors="replace").read() if r.get("log") and os.path.exists(r["log"]) else "")
                    nat, names = replay_native(tests, h["module"], scratch, h["name"], envadd, [fl["desc"] for fl in new])
                    if hstubs and not any(v.get("failed") for n in names for v in nat.get(n, {}).values()):
                        # the harness replaces callees by contract stubs: without them the native run takes another path.
                        # Second native run with the same stubs redirected textually in the replay copy.
                        log("  native replay of %s without its contract stubs passes; replaying with the stubs applied natively" % h["name"])
                        nat2, _ = replay_native(tests, h["module"], scratch, h["name"] + "_stubs", envadd, [fl["desc"] for fl in new], stubs=hstubs)
                        for n in names:
                            for prof, v in nat2.get(n, {}).items():
                                v["failed"] = bool(v.get("failed") and v.get("msg_match"))  # must carry the failing check's own message
                                nat.setdefault(n, {})[prof + "+contract_stubs"] = v
                        rec["stubs_applied_natively"] = hstubs
                except Exception as e:  # noqa
                    nat, names = {"error": repr(e)}, []
                for t, n in zip(tests, names):
                    rec["tests"].append({"test_src": t, "test_name": n, "native": nat.get(n)})
                    if any(v.get("failed") and (v.get("msg_match") or not sliced) for v in nat.get(n, {}).values()):
                        reproduced = True
                    if nat.get(n) and not any(v.get("ran") for v in nat.get(n, {}).values()):
                        log("REPLAY-DID-NOT-RUN harness=%s test=%s (native build or run of the generated test failed; see %s)" % (h["name"], n, rpath))
            # failures that are Kani-level only (pointer/UB checks) cannot be confirmed natively
            rec["reproduced_natively"] = reproduced
            rec["sliced_playback"] = sliced
            json.dump(rec, open(rpath, "w"), indent=1)
            if reproduced:
                violations += 1
                log("VIOLATION property=%s replay=%s" % (prop, rpath))
            else:
                inconclusive += 1
                log("INCONCLUSIVE harness=%s: solver counterexample did not reproduce natively (see %s)" % (h["name"], rpath))
        wall = time.time() - t0
        p = write_evidence(prop, tier, seed, results, wall, violations, extra)
        ok = sum(1 for _, r in results if r["status"] == "SUCCESS")
        log("[%s/%s] %d/%d harnesses SUCCESS, %d violations, %d inconclusive, %.0fs, evidence %s" % (
            prop, tier, ok, len(results), violations, inconclusive, wall, p))
        if violations:
            return 1
        if inconclusive:
            return 2
        return 0
    finally:
        if scratch and not os.environ.get("VERIF_KEEP"):
            shutil.rmtree(scratch, ignore_errors=True)
        elif scratch:
            log("kept scratch " + scratch)


def do_replay(path):
    rec = json.load(open(path))
    modules = sorted(set(h["module"] for h in specs.HARNESSES) - {"common"})
    scratch, dst, digest = prepare_scratch(modules)
    try:
        bad = False
        norun = False
        envadd = run_generators(scratch, dst)
        stubs = [tuple(x) for x in rec.get("stubs_applied_natively") or []] or None
        descs = [fl["desc"] for fl in rec.get("failed_checks", [])]
        nat, names = replay_native([t["test_src"] for t in rec["tests"]], rec["module"], scratch, "r", envadd, descs, stubs=stubs)
        if stubs:
            log("replaying with the harness's contract stubs applied natively: %s" % ", ".join("%s::%s" % (a, b) for a, b, _ in stubs))
            for n in names:
                for prof, v in nat[n].items():
                    v["failed"] = bool(v.get("failed") and v.get("msg_match"))
        for n in names:
            for prof, v in nat[n].items():
                log("replay %s [%s]: %s" % (n, prof, "FAILS (violation reproduced)" if v["failed"] else ("passes" if v["ran"] else "DID NOT RUN (native build failed): " + v["tail"][-400:])))
                bad = bad or v["failed"]
                norun = norun or not v["ran"]
        return 1 if bad else (2 if norun else 0)
    finally:
        shutil.rmtree(scratch, ignore_errors=True)


def main(argv):
    if not argv or argv[0] in ("-h", "--help"):
        print(open(os.path.join(VERIF, "check")).read().split('"""')[1])
        return 0
    if argv[0] == "--list":
        for h in specs.HARNESSES:
            print("%-36s %-8s %-28s %s" % (h["name"], h.get("tier", "quick"), ",".join(h["props"]), h.get("claim", "")[:90]))
        return 0
    if argv[0] == "--replay":
        return do_replay(argv[1])
    prop = argv[0]
    tier = os.environ.get("VERIF_TIER") or "quick"
    only = None
    jobs = int(os.environ.get("VERIF_JOBS", "6"))
    i = 1
    while i < len(argv):
        a = argv[i]
        if a in ("quick", "thorough"):
            tier = a
        elif a == "--only":
            i += 1
            only = argv[i]
        elif a == "--jobs":
            i += 1
            jobs = int(argv[i])
        elif a == "--keep":
            os.environ["VERIF_KEEP"] = "1"
        i += 1
    try:
        return do_check(prop, tier, only, jobs)
    except RuntimeError as e:
        log("ERROR (inconclusive): %s" % e)
        return 2
