#!/usr/bin/env python3
"""Regenerates /verif/MANIFEST.json from lib/specs.py (keeps the manifest in step with the harness table)."""
import json, os, sys
sys.path.insert(0, os.path.dirname(os.path.abspath(__file__)))
import specs
VERIF = os.path.dirname(os.path.dirname(os.path.abspath(__file__)))

checks = []
for pid in sorted(specs.PROPS):
    p = specs.PROPS[pid]
    q = [h["name"] for h in specs.HARNESSES if pid in h["props"] and h.get("tier", "quick") in ("quick", "quick_only")]
    t = [h["name"] for h in specs.HARNESSES if pid in h["props"] and h.get("tier", "quick") in ("quick", "thorough")]
    if not q:
        continue
    checks.append({
        "property_id": pid,
        "quick_cmd": "./check %s quick" % pid,
        "thorough_cmd": "./check %s thorough" % pid,
        "evidence_file": "/verif/evidence/%s.json" % pid,
        "replay_cmd_template": "./check --replay {path}",
        "engine": "kani-cbmc",
        "level_claimed": {"category": "model_checking", "text": p["level_text"], "design_ref": p["design_ref"]},
        "level_note": p["level_note"],
        "technique": p["technique"],
    })
m = {
    "version": 1,
    "setup_cmd": "./setup.sh",
    "hooks": {
        "guard": "cfg(kani)",
        "enable": "none needed in /repo: harness modules are injected into a scratch copy of the working tree as cfg(kani) child modules on every run; cfg(kani) is set only by the Kani compiler",
        "baseline_off_cmd": "cd /repo && cargo test --workspace --no-fail-fast --offline",
        "source_commits": [],
        "add_only": True,
    },
    "engines": [
        {"name": "kani-cbmc", "path": "/verif/check", "serves_properties": [c["property_id"] for c in checks],
         "kind_free_text": "bounded symbolic execution of the real Rust code: Kani 0.68.0 -> CBMC 6.11.0 -> CaDiCaL; per-harness unwind bounds with unwinding assertions on; counterexamples replayed natively (cargo kani playback)"},
    ],
    "checks": checks,
    "not_applicable": [{"property_id": k, "reason": v} for k, v in sorted(specs.NOT_APPLICABLE.items())],
    "notes": "quick = harnesses tagged quick; thorough = quick + deeper bounds. exit 2 = inconclusive (timeout/OOM/build failure/vacuous harness/non-reproducing counterexample), never reported as success. See DESIGN.md.",
}
json.dump(m, open(os.path.join(VERIF, "MANIFEST.json"), "w"), indent=1)
print("MANIFEST.json: %d checks, %d not applicable" % (len(checks), len(m["not_applicable"])))
