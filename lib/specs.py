"""Harness table: which Kani harness decides which property, with its bounds."""
import os, re

GLOBAL_ASSUMPTIONS = [
    "stub: PreflateError::add_context -> no-op (Location::caller unsupported by Kani); error values are outside every claim",
    "stub: alloc::fmt::format -> String::new()",
    "stub: <PreflateError as From<io::Error>>::from -> forget the io::Error, return a plain PreflateError",
    "Kani models the dev profile (overflow checks on, debug_assert on, panic=abort)",
    "every claim is bounded: see 'bounds' per harness; inputs outside are not claimed",
]

HARNESSES = []


def H(name, module, props, **kw):
    d = {"name": name, "module": module, "props": props}
    d.update(kw)
    HARNESSES.append(d)


# ---------------------------------------------------------------- smoke
H("k00_smoke", "common", [], claim="build anchor")

# ---------------------------------------------------------------- container / varint
H("k01b_varint_rt", "preflate_container", ["C01", "C04", "C05"], unwind=7,
  claim="read_varint(write_varint(v)) == v and the buffer is fully consumed",
  functions=["preflate_container::write_varint", "preflate_container::read_varint"],
  bounds="all u32 v (unwind 7 covers the 5-byte maximum)", outside="nothing for this pair")

# ---------------------------------------------------------------- parameters
H("k02a_params_rt", "preflate_parameter_estimator", ["C02", "C08", "C05"], unwind=4, timeout=300,
  claim="PreflateParameters::read(write(p)) == p for every p in estimator_range (dictionary branch)",
  functions=["PreflateParameters::write", "PreflateParameters::read"],
  bounds="every vector in estimator_range: 7 hash algorithms (Zlib shift<=15, any mask), 5 add policies with limit 0..=257, "
         "10 (matching, nice) rows, window 9..=15, chain 1..=4096, mem_level 1..=9, min_len 3..=258 or unset, all flags",
  assumptions=["codec = recording codec Rec that keeps only the declared low bits of encode_value (as write_bypass does)"])
H("k02a_params_rt_nodict", "preflate_parameter_estimator", ["C02", "C08", "C04"], unwind=4,
  claim="the no-dictionary parameter constant round-trips through write/read",
  functions=["PreflateParameters::write", "PreflateParameters::read"], bounds="Store and HuffOnly x 3 huff strategies")

# ---------------------------------------------------------------- deflate reader / writer
STORED_FUNCS = ["DeflateReader::read_block (stored arm)", "BitReader::get/read_byte/flush_buffer_to_byte_boundary",
                "DeflateReader::read_eof_padding", "DeflateWriter::encode_block (stored arm)", "BitWriter::write/pad/flush_whole_bytes",
                "DeflateWriter::flush_with_padding"]
H("k07a_stored_rewrite_7", "deflate_reader", ["C07", "C03", "C05", "C02"], unwind=9, timeout=400,
  claim="stored block: parse -> re-serialise gives back exactly the consumed bytes; plaintext, final flag and consumed length equal the RFC 1951 reading",
  functions=STORED_FUNCS, bounds="all 7-byte inputs whose first block is stored and is accepted (payload 0..=2, all padding bit patterns, both final-flag values)",
  outside="payloads longer than N-5 bytes", assumptions=["input seam Src<N>: parse must finish within N bytes (assume(false) beyond)"])
H("k07a_stored_rewrite_10", "deflate_reader", ["C07", "C03"], tier="thorough", unwind=12, timeout=1500, mem_gb=12,
  claim="as k07a_stored_rewrite_7 with N = 10", functions=STORED_FUNCS, bounds="all 10-byte inputs, payload 0..=5",
  assumptions=["input seam Src<N>"])

# ---------------------------------------------------------------- tree predictor
H("k05b_tc_len_total", "tree_predictor", ["C05", "C01"], unwind=20,
  claim="calc_tc_lengths_without_trailing_zeros never indexes out of range and returns min(n,4)..=19",
  functions=["tree_predictor::calc_tc_lengths_without_trailing_zeros"],
  bounds="every u8 slice of length 1..=19 (calc_bit_lengths trims trailing zero symbols, so short slices occur)")


def version_gate(dst, verif):
    """read the two format version constants from current and reference source"""
    def grab(root):
        out = {}
        for f, c in (("src/preflate_container.rs", "COMPRESSED_WRAPPER_VERSION_1"),
                     ("src/preflate_parameter_estimator.rs", "FILE_VERSION")):
            p = os.path.join(root, f)
            m = re.search(r"const\s+%s\s*:\s*\w+\s*=\s*([^;]+);" % c, open(p).read()) if os.path.exists(p) else None
            out[c] = m.group(1).strip() if m else None
        return out
    cur = grab(dst)
    ref = grab(os.path.join(verif, "reference", "preflate_ref"))
    return {"current": cur, "reference": ref, "announced_change": cur != ref and None not in cur.values() and None not in ref.values()}

# ---------------------------------------------------------------------------
# per-property manifest text
# ---------------------------------------------------------------------------
_T = "bounded symbolic execution of the real code (Kani 0.68 / CBMC 6.11 / CaDiCaL)"
PROPS = {
    "C01": dict(design_ref="§2 C01", technique=_T + ": scanner tiling with contract stubs, header parsers, chunk/varint/IDAT round trips",
                level_text="Every lemma the container round trip decomposes into is decided by the SAT solver for all inputs inside the stated byte bounds; composition across lemmas is by argument (DESIGN §C01).",
                level_note="Bounds per harness in evidence; files in which the real analysis accepts a >1024-byte stream are outside (no such stream fits the bounds). Trusted: Kani/CBMC, stubs, crc32fast shim."),
    "C02": dict(design_ref="§2 C02", technique=_T + ": mirror-pair lemmas (parameter header, token predict/recreate over a model chain, hops inverse, tree header, block structure)",
                level_text="Each encoder/decoder mirror pair is decided for all inputs inside its bound with the arithmetic coder replaced by a transparent recording codec.",
                level_note="Model hash chain at the HashChain trait seam (real hash tables are out of reach); dynamic-block Huffman prediction and the estimator are outside."),
    "C03": dict(design_ref="§2 C03", technique=_T + ": differential harness against an RFC 1951 reference decoder written in the harness",
                level_text="Reader output equals an independent RFC-1951 reading for all stored/fixed blocks within N bytes, all table entries and all small canonical codes.",
                level_note="Oracle is the in-harness reference, validated natively against zlib (sampled) by setup_cmd; dynamic blocks over full alphabets are outside."),
    "C04": dict(design_ref="§2 C04", technique=_T + ": bounded equivalence of format-defining kernels, current tree vs frozen reference crate",
                level_text="For each format-defining kernel the solver shows current(x) == reference(x) for all x in the bound; an announced version bump passes.",
                level_note="Kernel list in evidence; code outside the list (table-level chain code, estimators) is not covered."),
    "C05": dict(design_ref="§2 C05", technique=_T + ": Kani panic/overflow/bounds/unwinding checks on parser, tree predictor, matcher, container",
                level_text="No panic, overflow, out-of-bounds or unbounded loop for any input inside the bounds, for the harnessed functions.",
                level_note="Estimators and the real hash-table walk are outside; dev-profile semantics."),
    "C06": dict(design_ref="§2 C06", technique=_T + ": real scanner with an offset-oracle stub for the analysis",
                level_text="For every wrapper/header variant in the bound the scanner calls the analysis exactly at the stream start and emits the chunk there.",
                level_note="Acceptance of S by the real analysis is stubbed (oracle); large optional fields outside."),
    "C07": dict(design_ref="§2 C07", technique=_T + ": parse -> re-serialise identity on symbolic bit streams",
                level_text="Reader followed by writer reproduces the consumed bits for all stored blocks, fixed-Huffman token sequences and dynamic headers inside the bounds.",
                level_note="Fixed tables precomputed natively from the same source and checked equal under Kani in the thorough tier; dynamic block data over full alphabets outside."),
    "C08": dict(design_ref="§2 C08", technique=_T + ": C02 mirror lemmas with the parameter vector symbolic over estimator_range",
                level_text="The mirror lemmas hold for every parameter vector in estimator_range, so reconstruction cannot depend on which one the estimator picked.",
                level_note="estimator_range predicate is hand-written from recommend() and the config tables and printed in evidence."),
    "C10": dict(design_ref="§2 C10", technique=_T + ": exp-coding pair and op protocol over a tagged transparent channel",
                level_text="Encode/decode of every single operation (all v < 2^31, widths 1..16, every context) and of all k-operation sequences with concrete kinds round-trips and uses identical context slots.",
                level_note="The VP8 arithmetic coder is replaced by a tagged transparent channel; sequences longer than k outside."),
    "C11": dict(design_ref="§2 C11", technique=_T + ": compress_zstd/decompress_zstd over a zstd framing model",
                level_text="Capacity pass-through, error propagation and round trip of the two wrapper functions for all small inputs and capacities.",
                level_note="zstd itself is modelled (FFI): the claim is conditional on zstd meeting the model's contract."),
    "C12": dict(design_ref="§2 C12", technique=_T + ": C ABI wrappers with harness-owned guarded buffers over the zstd model",
                level_text="Status, result_size and buffer bounds of both wrappers for all small inputs and capacities.",
                level_note="catch_unwind is stubbed to call the closure (no unwinding semantics in Kani); 128 MiB bound and 'never unwinds' are not decided."),
    "C13": dict(design_ref="§2 C13", technique=_T + ": recreated_zlib_chunks over solver-chosen read/write fragmentation and fault points",
                level_text="For every fragmentation and fault schedule inside the bound: same output, or Err with a prefix written, never a panic.",
                level_note="Literal-chunk containers only (deflate chunks need the real predictor); sizes bounded."),
}
NOT_APPLICABLE = {
    "C09": "statistical aggregate over outputs of four real compressors relative to a second build: no bounded symbolic assertion expresses it and the compressors/estimators cannot be encoded (DESIGN §C09)",
    "C14": "quantifies over thread schedules; Kani/CBMC do not model Rust threads here and a hand MIR->SMT interleaving encoding of this library is out of reach (DESIGN §C14)",
}
