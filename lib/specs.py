"""Harness table: which Kani harness decides which property, with its bounds."""
import os, re

GLOBAL_ASSUMPTIONS = [
    "stub: PreflateError::add_context -> no-op (Location::caller unsupported by Kani); error values are outside every claim",
    "stub: alloc::fmt::format -> String::new()",
    "stub: <PreflateError as From<io::Error>>::from -> forget the io::Error, return a plain PreflateError",
    "Kani models the dev profile (overflow checks on, debug_assert on, panic=abort)",
    "every claim is bounded: see 'bounds' per harness; inputs outside are not claimed",
]

HARNESSES = []


def H(name, module, props, **kw):
    d = {"name": name, "module": module, "props": props}
    d.update(kw)
    HARNESSES.append(d)


# ---------------------------------------------------------------- smoke
H("k00_smoke", "common", [], claim="build anchor")

# ---------------------------------------------------------------- container / varint
H("k01b_varint_rt", "preflate_container", ["C01", "C04", "C05"], unwind=7,
  claim="read_varint(write_varint(v)) == v and the buffer is fully consumed",
  functions=["preflate_container::write_varint", "preflate_container::read_varint"],
  bounds="all u32 v (unwind 7 covers the 5-byte maximum)", outside="nothing for this pair")

# ---------------------------------------------------------------- parameters
H("k02a_params_rt", "preflate_parameter_estimator", ["C02", "C08", "C05"], unwind=4, timeout=300,
  claim="PreflateParameters::read(write(p)) == p for every p in estimator_range (dictionary branch)",
  functions=["PreflateParameters::write", "PreflateParameters::read"],
  bounds="every vector in estimator_range: 7 hash algorithms (Zlib shift<=15, any mask), 5 add policies with limit 0..=257, "
         "10 (matching, nice) rows, window 9..=15, chain 1..=4096, mem_level 1..=9, min_len 3..=258 or unset, all flags",
  assumptions=["codec = recording codec Rec that keeps only the declared low bits of encode_value (as write_bypass does)"])
H("k02a_params_rt_nodict", "preflate_parameter_estimator", ["C02", "C08", "C04"], unwind=4,
  claim="the no-dictionary parameter constant round-trips through write/read",
  functions=["PreflateParameters::write", "PreflateParameters::read"], bounds="Store and HuffOnly x 3 huff strategies")

# ---------------------------------------------------------------- tree predictor
H("k05b_tc_len_total", "tree_predictor", ["C05", "C01"], unwind=20,
  claim="calc_tc_lengths_without_trailing_zeros never indexes out of range and returns min(n,4)..=19",
  functions=["tree_predictor::calc_tc_lengths_without_trailing_zeros"],
  bounds="every u8 slice of length 1..=19 (calc_bit_lengths trims trailing zero symbols, so short slices occur)")


def version_gate(dst, verif):
    """read the two format version constants from current and reference source"""
    def grab(root):
        out = {}
        for f, c in (("src/preflate_container.rs", "COMPRESSED_WRAPPER_VERSION_1"),
                     ("src/preflate_parameter_estimator.rs", "FILE_VERSION")):
            p = os.path.join(root, f)
            m = re.search(r"const\s+%s\s*:\s*\w+\s*=\s*([^;]+);" % c, open(p).read()) if os.path.exists(p) else None
            out[c] = m.group(1).strip() if m else None
        return out
    cur = grab(dst)
    ref = grab(os.path.join(verif, "reference", "preflate_ref"))
    return {"current": cur, "reference": ref, "announced_change": cur != ref and None not in cur.values() and None not in ref.values()}
