"""Harness table: which Kani harness decides which property, with its bounds."""
import os, re

GLOBAL_ASSUMPTIONS = [
    "stub: PreflateError::add_context -> no-op (Location::caller unsupported by Kani); error values are outside every claim",
    "stub: alloc::fmt::format -> String::new()",
    "stub: <PreflateError as From<io::Error>>::from -> forget the io::Error, return a plain PreflateError",
    "Kani models the dev profile (overflow checks on, debug_assert on, panic=abort)",
    "every claim is bounded: see 'bounds' per harness; inputs outside are not claimed",
]

# merged into every explicit unwindset (slice == is a memcmp loop: bytes + 1)
GLOBAL_UNWINDSET = {}
MEMCMP_UNWIND = 12

HARNESSES = []


def H(name, module, props, **kw):
    d = {"name": name, "module": module, "props": props}
    d.update(kw)
    HARNESSES.append(d)


# ---------------------------------------------------------------- smoke
H("k00_smoke", "common", [], claim="build anchor")

# ---------------------------------------------------------------- container / varint
H("k01b_varint_rt", "preflate_container", ["C01", "C04", "C05"], unwind=7,
  claim="read_varint(write_varint(v)) == v and the buffer is fully consumed",
  functions=["preflate_container::write_varint", "preflate_container::read_varint"],
  bounds="all u32 v (unwind 7 covers the 5-byte maximum)", outside="nothing for this pair")

# ---------------------------------------------------------------- parameters
H("k02a_params_rt", "preflate_parameter_estimator", ["C02", "C08", "C05"], unwind=4, timeout=300,
  claim="PreflateParameters::read(write(p)) == p for every p in estimator_range (dictionary branch)",
  functions=["PreflateParameters::write", "PreflateParameters::read"],
  bounds="every vector in estimator_range: 7 hash algorithms (Zlib shift<=15, any mask), 5 add policies with limit 0..=257, "
         "10 (matching, nice) rows, window 9..=15, chain 1..=4096, mem_level 1..=9, min_len 3..=258 or unset, all flags",
  assumptions=["codec = recording codec Rec that keeps only the declared low bits of encode_value (as write_bypass does)"])
H("k02a_params_rt_nodict", "preflate_parameter_estimator", ["C02", "C08", "C04"], unwind=4,
  claim="the no-dictionary parameter constant round-trips through write/read",
  functions=["PreflateParameters::write", "PreflateParameters::read"], bounds="Store and HuffOnly x 3 huff strategies")

# ---------------------------------------------------------------- deflate reader / writer
STORED_FUNCS = ["DeflateReader::read_block (stored arm)", "BitReader::get/read_byte/flush_buffer_to_byte_boundary",
                "DeflateReader::read_eof_padding", "DeflateWriter::encode_block (stored arm)", "BitWriter::write/pad/flush_whole_bytes",
                "DeflateWriter::flush_with_padding"]
H("k07a_stored_rewrite_7", "deflate_reader", ["C07", "C03", "C05", "C02"], unwind=9, timeout=400,
  claim="stored block: parse -> re-serialise gives back exactly the consumed bytes; plaintext, final flag and consumed length equal the RFC 1951 reading",
  functions=STORED_FUNCS, bounds="all 7-byte inputs whose first block is stored and is accepted (payload 0..=2, all padding bit patterns, both final-flag values)",
  outside="payloads longer than N-5 bytes", assumptions=["input seam Src<N>: parse must finish within N bytes (assume(false) beyond)"])
H("k07a_stored_rewrite_10", "deflate_reader", ["C07", "C03"], unwind=12, timeout=1500, mem_gb=12,
  claim="as k07a_stored_rewrite_7 with N = 10", functions=STORED_FUNCS, bounds="all 10-byte inputs, payload 0..=5",
  assumptions=["input seam Src<N>"])

FIXED_FUNCS = ["DeflateReader::decode_block", "huffman_helper::decode_symbol", "BitReader::get", "PreflateTokenBlock::add_literal/add_reference",
               "DeflateWriter::encode_block/encode_block_with_decoder (fixed arm)", "HuffmanWriter::write_literal/write_distance",
               "preflate_constants::quantize_length/quantize_distance + base/extra tables", "BitWriter::write/pad", "DeflateReader::read_eof_padding"]
FIXED_ASSUME = ["fixed Huffman tables = constants printed natively from the current source on this run (stubs for create_fixed / start_fixed_huffman_table); equality re-checked under Kani by k07b0_fixed_tables_eq (thorough)",
                "input seam Src<N>"]
FIXED_UW = {"decode_symbol": 11, "BitReader.*get": 6, "bit_writer::BitWriter::flush_whole_bytes": 5, "bit_writer::BitWriter::pad": 9}
FIXED_UW = {"decode_symbol": 11, "BitReader.*get": 6, "bit_writer::BitWriter::flush_whole_bytes": 5, "bit_writer::BitWriter::pad": 9,
            "decode_block": 3, "RefBits.*::bits": 14, "RefBits.*code_bits": 8, "ref_fixed_block": 10, "fixed_rewrite": 10}
H("k07b_fixed_token_6", "deflate_reader", ["C07", "C03", "C02", "C05"], tier="experimental", unwind=7, unwindset=FIXED_UW, timeout=1500, mem_gb=14, needs_gen=True,
  claim="fixed-Huffman block with one token: token and consumed length equal the RFC 1951 reference decoder's, and parse -> re-serialise reproduces the consumed bytes",
  functions=FIXED_FUNCS, bounds="every fixed-Huffman block holding at most one token then EOB within 6 bytes: all 256 literals, every (length 3..258, distance 1..32768) with every extra-bit pattern, length 258 as 285 and as 284+31, all final padding patterns, both final-flag values",
  outside="blocks with 2 or more tokens (k07b_fixed_rewrite_3)", assumptions=FIXED_ASSUME + ["write_literal/write_reference stubbed to no-ops, window pre-filled with 32768 bytes so every distance is legal (plaintext is checked by k03b_fixed_plain_3)",
              "token-count bound assumed on the RFC reference before the real decoder runs; the real decoder's unwinding assertion discharges it"])
H("k07b_fixed_rewrite_3", "deflate_reader", ["C07", "C03", "C05"], tier="experimental", unwind=7, unwindset=dict(FIXED_UW, decode_block=4), timeout=1200, mem_gb=14, needs_gen=True,
  kani_args=["-Z", "unstable-options", "--no-memory-safety-checks"],
  claim="as k07b_fixed_token_6 for blocks of <= 2 tokens", functions=FIXED_FUNCS, bounds="every fixed-Huffman block with <= 2 tokens ending within 3 bytes", assumptions=FIXED_ASSUME)
H("k03b_fixed_plain_3", "deflate_reader", ["C03", "C05"], tier="experimental", unwind=7, unwindset=dict(FIXED_UW, decode_block=4, write_reference=120, **{"fixed_rewrite": 125}), timeout=1500, mem_gb=14, needs_gen=True,
  claim="plain_text produced by the real write_literal/write_reference equals the replay of the RFC reference's tokens over the same window",
  functions=FIXED_FUNCS + ["DeflateReader::write_literal", "DeflateReader::write_reference"], bounds="fixed blocks of <= 2 tokens within 3 bytes over a 4-byte window (distances 1..4+produced, lengths up to 114)",
  assumptions=FIXED_ASSUME)
H("k07w_fixed_token_write", "deflate_writer", ["C07", "C02"], unwind=7, unwindset={"RefBits.*::bits": 14, "RefBits.*code_bits": 10, "ref_fixed_block": 10, "k07w": 8,
  "flush_whole_bytes": 5, "BitWriter::pad": 9}, timeout=1200, mem_gb=14, needs_gen=True,
  claim="the writer's bits for a fixed-Huffman block with one token decode (RFC 1951 reference decoder) to exactly that token: all literals, all (length, distance), length 258 as 285 and as 284+31, final flag, final padding; no surplus bytes",
  functions=["DeflateWriter::encode_block / encode_block_with_decoder (fixed arm)", "HuffmanWriter::write_literal/write_distance", "quantize_length/quantize_distance + tables", "BitWriter::write/pad/flush_whole_bytes", "DeflateWriter::flush_with_padding"],
  bounds="every literal 0..=255; every length 3..=258 x distance 1..=32768; irregular-258 flag; both final-flag values; all 256 padding bytes",
  assumptions=FIXED_ASSUME[:1] + ["BitWriter::flush_whole_bytes replaced by an equivalent that appends into reserved capacity without reallocation (real one runs in k07a / k02f)"])
H("k07x_dynamic_token_write", "huffman_encoding", ["C07", "C02"], unwind=6, unwindset={"k07x": 14, "flush_whole_bytes": 6, "BitWriter::pad": 9}, timeout=1500, mem_gb=16,
  claim="under an arbitrary Huffman code (any lengths 1..=15 and code values for the three symbols involved) the writer emits exactly code ‖ length-extra ‖ code ‖ distance-extra ‖ EOB for every (length, distance) at every starting bit offset: no bit is lost or reordered",
  functions=["DeflateWriter::encode_block_with_decoder", "HuffmanWriter::write_literal/write_distance", "BitWriter::write/flush_whole_bytes/pad", "quantize_* + tables"],
  bounds="every length 3..=258 x distance 1..=32768 x code lengths 1..=15 and code values x 0..=7 pending bits", outside="literal tokens under dynamic codes (same write_literal path), irregular 258 under dynamic codes",
  assumptions=["BitWriter::flush_whole_bytes replaced by an equivalent that appends into reserved capacity without reallocation (real one runs in k07a / k02f)"])
H("k07b0_fixed_tables_eq", "huffman_encoding", ["C07", "C03"], tier="experimental", unwind=4, unwindset={"huffman": 600, "k07b0": 600, "Vec|vec": 600}, timeout=3000, mem_gb=16, needs_gen=True,
  claim="HuffmanReader::create_fixed / HuffmanWriter::start_fixed_huffman_table return exactly the precomputed constants", functions=["HuffmanReader::create_fixed", "HuffmanWriter::start_fixed_huffman_table", "calculate_huffman_code_tree", "calc_huffman_codes"],
  bounds="concrete (no symbolic input)")
H("k03d_fixed_code_vs_rfc", "huffman_encoding", ["C03", "C07"], unwind=12, timeout=600, needs_gen=True,
  claim="for every symbol of the fixed code: writer table = RFC 1951 §3.2.6 code (bit-reversed), and the real decode_symbol over the fixed tree maps that code back to the symbol; same for the 32 distance codes",
  functions=["huffman_helper::decode_symbol", "fixed tables (generated)"], bounds="all 288 literal/length symbols x all 32 distance symbols",
  assumptions=["fixed tables = generated constants (see k07b0_fixed_tables_eq)"])

# ---------------------------------------------------------------- correction codec (C10)
CABAC_FUNCS = ["PredictionCabacContext::encode_value/encode_misprediction/encode_correction/flush_encode",
               "PredictionCabacContext::decode_value/decode_misprediction/decode_correction", "write_exp_encoded/read_exp_value",
               "write_bypass/read_bypass", "cabac::traits put_unary_encoded/put_n_bits/get_unary_encoded/get_n_bits (provided methods, real code)"]
CABAC_ASSUME = ["VP8 arithmetic coder replaced by a transparent tagged channel (bit, context-slot id); the decoder must present the same slot"]
for w in ("8", "16"):
    H("k10a_exp_pair_" + w, "cabac_codec", ["C10"], unwind=34, timeout=600,
      claim="read_exp_value(write_exp_encoded(v)) == v, same context slots, channel fully consumed (%s-slot context arrays)" % w,
      functions=CABAC_FUNCS[2:3] + CABAC_FUNCS[4:], bounds="every v < 2^31", assumptions=CABAC_ASSUME)
for k in ["value", "misprediction"] + ["correction_%d" % i for i in range(10)]:
    H("k10b_single_" + k, "cabac_codec", ["C10"], unwind=34, timeout=900, tier="quick" if k in ("value", "misprediction", "correction_0", "correction_3", "correction_9") else "thorough",
      claim="one %s operation, then finish, decodes to itself" % k, functions=CABAC_FUNCS,
      bounds="values v < 2^31 / widths 1..=16 with v < 2^width / both flags; 7 misprediction contexts symbolic; one harness per correction context (10)",
      assumptions=CABAC_ASSUME)
for a in "012":
    for b in "012":
        for c in "012":
            H("k10c_p%s%s%s" % (a, b, c), "cabac_codec", ["C10"], unwind=18, timeout=1200, mem_gb=12,
              tier="quick" if (a + b + c) in ("012", "021", "102", "111", "220") else "thorough",
              claim="every sequence of 3 operations of kinds (%s,%s,%s) [0=value,1=misprediction,2=correction] round-trips, uses identical context slots, leaves the channel and default_count empty" % (a, b, c),
              functions=CABAC_FUNCS, bounds="kinds concrete per harness (27 harnesses = all kind sequences of length 3); values < 64, widths <= 4, misprediction contexts symbolic, correction contexts by position (DistOnly, Len, Len)",
              outside="sequences longer than 3; larger values inside sequences (single ops cover the full range); other context patterns inside sequences", assumptions=CABAC_ASSUME + ["correction contexts concrete at every call site (a symbolic context index produced a non-reproducing CBMC counterexample; DESIGN §C10)"])
H("k02g_diff_coding", "cabac_codec", ["C02", "C04"], unwind=3, claim="decode_difference(p, encode_difference(p, a)) == a",
  functions=["cabac_codec::encode_difference", "cabac_codec::decode_difference"], bounds="all p, a < 2^30")

# ---------------------------------------------------------------- scanner (C01, C05, C06)
SCAN_CONTRACTS = ["contract stub decompress_deflate_stream: Err | Ok with 1 <= compressed_size <= len, plaintext 1024 or 1025 bytes",
                  "contract stub skip_gzip_header: Err | Ok after consuming 10..=16 bytes (discharged by k01_gzip_hdr_16)",
                  "contract stub parse_zip_stream: Err | Ok((h, r)) with 30 <= h, h + r.compressed_size <= len (discharged by k01_zip_hdr_34)",
                  "contract stub parse_idat: Err | Ok with 12 <= total_chunk_length <= len (discharged by k01e_idat_total)"]
SCAN_UW = {"next_signature": 1060, "check_tiling": 8, "split_into_deflate_streams": 4}
SCAN_BOUNDS = "look-alikes at concrete offsets in an otherwise zero file (places and kinds concrete per instance) x every outcome the callees' contracts allow (Ok/Err, sizes, positions: symbolic)"
H("k01a_scan_tiling_single", "scan_deflate", ["C01", "C05"], tier="experimental", unwind=5, unwindset=SCAN_UW, timeout=5400, mem_gb=44,
  claim="split_into_deflate_streams never panics and its chunks tile the file exactly (every literal length within the remaining bytes) for one look-alike of each kind (zlib, gzip, zip, IDAT) in a 1056-byte file",
  functions=["scan_deflate::split_into_deflate_streams", "scan_deflate::next_signature"], bounds=SCAN_BOUNDS, outside="symbolic file bytes (8 symbolic bytes needed > 20 GB), more than two look-alikes", assumptions=SCAN_CONTRACTS)
H("k01a_scan_tiling_pairs", "scan_deflate", ["C01", "C05"], tier="experimental", unwind=5, unwindset=SCAN_UW, timeout=1800, mem_gb=16,
  claim="as k01a_scan_tiling_single for an IDAT look-alike shortly after a zlib look-alike (look-back into an accepted stream) and for two zlib look-alikes",
  functions=["scan_deflate::split_into_deflate_streams", "scan_deflate::next_signature"], bounds=SCAN_BOUNDS, assumptions=SCAN_CONTRACTS)
H("k01a_scan_tiling_short", "scan_deflate", ["C01", "C05"], tier="experimental", unwind=5, unwindset=dict(SCAN_UW, next_signature=8), timeout=1800, mem_gb=16,
  claim="as k01a_scan_tiling_single for files of 3, 4 and 6 bytes (look-alikes at the very end, IDAT with fewer than 4 bytes before it)",
  functions=["scan_deflate::split_into_deflate_streams", "scan_deflate::next_signature"], bounds=SCAN_BOUNDS, assumptions=SCAN_CONTRACTS)
H("k01a_scan_reject_all_8", "scan_deflate", ["C01", "C11", "C12"], unwind=6, unwindset=dict(SCAN_UW, next_signature=10, k01a_scan_reject=6), timeout=1800, mem_gb=16,
  claim="when every analysis call rejects, split_into_deflate_streams returns exactly one literal chunk covering the file",
  functions=["scan_deflate::split_into_deflate_streams", "scan_deflate::next_signature"], bounds="8-byte files with look-alike pairs (zlib,gzip) (zip,IDAT) (IDAT,zlib) (none) at concrete offsets", assumptions=SCAN_CONTRACTS[1:])
H("k01_gzip_hdr_16", "scan_deflate", ["C01", "C05", "C06"], unwind=18, unwindset={"gzip_hdr": 18}, timeout=900,
  claim="skip_gzip_header: Ok or Err, never panics; Ok exactly when a complete header with CM = 8 is present, and then the cursor is at the RFC 1952 header length (10 + FEXTRA + FNAME + FCOMMENT + FHCRC in that order)", functions=["scan_deflate::skip_gzip_header"],
  bounds="every input of <= 16 bytes incl. truncated ones (EOF-reporting source), all FLG combinations", assumptions=["input seam SrcEof<N>"])
H("k01_zip_hdr_34", "scan_deflate", ["C01", "C05", "C06"], unwind=6, timeout=900, mem_gb=12,
  claim="parse_zip_stream: Ok or Err, never panics; Ok((h, r)) implies signature PK\\x03\\x04, method 8, h == 30 + name length + extra length and h + r.compressed_size <= len",
  functions=["scan_deflate::parse_zip_stream", "ZipLocalFileHeader::create_and_load"], bounds="every input of <= 34 bytes (name/extra lengths any u16)",
  assumptions=SCAN_CONTRACTS[:1])

# ---------------------------------------------------------------- IDAT (C01)
H("k01d_idat_desc_rt", "idat_parse", ["C01", "C04"], unwind=7, timeout=900, mem_gb=12,
  claim="IdatContents::read_from_bytestream(write_to_bytestream(d)) preserves chunk sizes, zlib header and Adler-32",
  functions=["IdatContents::write_to_bytestream", "IdatContents::read_from_bytestream", "write_varint", "read_varint"],
  bounds="every chunk-size vector of length <= 2 with sizes 1..2^30 (parse_idat never records a zero-length chunk: k01e), any header/Adler bytes")
IDAT_FUNCS = ["idat_parse::parse_idat", "idat_parse::recreate_idat"]
IDAT_ASSUME = ["chunk length fields concrete per instance, every other byte symbolic (symbolic lengths: 30 GB were not enough for 21 bytes)",
               "crc32fast::Hasher::update switched (flag in the shim crate, also active in native replays) to a cheap byte mixer (checksum value is not the subject; same function on both sides)"]
IDAT_UW = {"update_cheap": 24, "crc32fast.*update": 24, "idat_shape": 46, "parse_idat": 5, "recreate_idat": 4}
for nm, cl, bd in (("one_chunk", "one IDAT chunk of 7 payload bytes, nothing behind it", "payload length 7"),
                   ("one_chunk_tail", "one IDAT chunk followed by 8 / 20 arbitrary bytes", "payload 6 + 8 trailing bytes; payload 9 + 20 trailing bytes"),
                   ("short_tail", "1 or 7 bytes after the last chunk (shorter than a chunk header)", "payload 6/7 with 1, 7 trailing bytes"),
                   ("short_tail2", "4 or 11 bytes after the last chunk", "payload 6 with 4, 11 trailing bytes"),
                   ("tiny_payload", "payloads shorter than the fixed parts of a zlib stream", "payload lengths 1, 3, 4, 5"),
                   ("two_chunks2", "two chunks incl. a zero-length second chunk and a split inside the Adler-32", "layouts (6,0), (4,3)")):
    H("k01e_idat_" + nm, "idat_parse", ["C01", "C05"], unwind=6, unwindset=IDAT_UW, timeout=1500, mem_gb=24,
      claim="parse_idat is total (Ok or Err, no panic) on " + cl + "; Ok implies 12 <= total_chunk_length <= len, total = sum of chunks + 12 each, payload = chunk data minus 6, no zero-length chunk recorded",
      functions=IDAT_FUNCS[:1], bounds=bd + "; all payload, CRC and trailing bytes symbolic", assumptions=IDAT_ASSUME)
H("k01e_idat_recreate", "idat_parse", ["C01"], unwind=6, unwindset=IDAT_UW, timeout=3000, mem_gb=40, tier="experimental",
  claim="recreate_idat(parse_idat(x)) reproduces exactly the consumed input bytes", functions=IDAT_FUNCS, bounds="one chunk of 7 payload bytes, all symbolic", assumptions=IDAT_ASSUME)
H("k01e_idat_real_crc", "idat_parse", ["C01"], unwind=9, unwindset=IDAT_UW, timeout=3000, mem_gb=24, tier="experimental",
  claim="as k01e_idat_one_chunk with the real bit-serial CRC-32", functions=IDAT_FUNCS + ["crc32fast shim"], bounds="one chunk, 6 payload bytes", assumptions=IDAT_ASSUME[:1])

# ---------------------------------------------------------------- container chunks, I/O faults (C01, C13), zstd (C11), C ABI (C12)
CONT_FUNCS = ["preflate_container::recreated_zlib_chunks", "preflate_container::read_chunk_block", "preflate_container::write_chunk_block",
              "read_varint/write_varint", "std read_exact / write_all loops (real)"]
H("k01c_literal_chunks_rt", "preflate_container", ["C01", "C13", "C04"], unwind=9, timeout=900, mem_gb=12,
  claim="literal chunks written by write_chunk_block are reproduced verbatim by recreated_zlib_chunks", functions=CONT_FUNCS,
  bounds="files of 0,1,3,5 symbolic bytes in 1-2 literal chunks (4 concrete shapes (length, split): chunk tags/lengths at concrete offsets)",
  assumptions=["deflate/PNG arms of read_chunk_block cut by Err stubs (unreachable for literal-only containers; symbolic execution would otherwise enter the whole reconstruction)"])
K13_UW = {"fragmented_io": 42, "io_faults": 42, "write_varint": 3, "read_varint": 3}
K13_ASSUME = ["FragRead / FragWrite: concrete fragmentation pattern per instance (1, 2 or all bytes per call), hard error at a symbolic offset; read_exact / write_all are std's loops minus the Interrupted retry arm",
              "deflate/PNG arms of read_chunk_block cut by Err stubs (unreachable for literal-only containers)"]
H("k13a_fragmented_io", "preflate_container", ["C13"], unwind=6, unwindset=K13_UW, timeout=1800, mem_gb=20,
  claim="recreated_zlib_chunks gives the same output under one-byte, two-byte and bulk reads combined with one-byte / bulk partial writes",
  functions=CONT_FUNCS, bounds="3-byte file in two literal chunks and 4-byte file in one chunk (symbolic content) x 4 concrete fragmentation patterns",
  outside="solver-chosen per-call fragmentation (ran out of memory), deflate / IDAT chunks, ErrorKind::Interrupted retries", assumptions=K13_ASSUME)
H("k13b_io_faults", "preflate_container", ["C13", "C05"], unwind=6, unwindset=K13_UW, timeout=1800, mem_gb=20,
  claim="a hard I/O error at any source or destination offset yields Err without panic, and the bytes accepted so far are a prefix of the original file (one-byte reads and writes)",
  functions=CONT_FUNCS, bounds="3-byte file in two literal chunks (8-byte container) x source fault at each offset 0,1,2,3,4,6,7,8 (concrete instances), symbolic content", assumptions=K13_ASSUME)
H("k13b_io_faults_dst", "preflate_container", ["C13", "C05"], unwind=6, unwindset=K13_UW, timeout=1800, mem_gb=20,
  claim="destination failing at every offset 0..3 (and a combined source+destination fault) yields Err without panic, with a prefix of the file written",
  functions=CONT_FUNCS, bounds="3-byte file in two literal chunks x destination fault at offsets 0,1,2,3 x bulk / 1-byte / 2-byte transfers", assumptions=K13_ASSUME)
CONTAINER_CONTRACT = "container layer replaced by an identity contract (expand = copy, recreate = copy through the destination's write_all): the container round trip itself is C01's lemma (k01c, k13*, k01a*); this harness decides the zstd / buffer plumbing"
ZSTD_ASSUME = [CONTAINER_CONTRACT, "zstd replaced by the framing model in /verif/shims/zstd (FFI cannot be encoded): the claim is about preflate-rs's plumbing given a zstd meeting that contract"]
H("k11a_zstd_roundtrip", "preflate_container", ["C11"], unwind=6, timeout=1200, mem_gb=14,
  claim="decompress_zstd(compress_zstd(F), cap) == F when cap >= expanded size and Err when smaller (no truncated Ok, no panic)",
  functions=["compress_zstd", "decompress_zstd", "PreflateError::from(io::Error) occurrence"],
  bounds="files of 0, 1, 4 symbolic bytes x every capacity 0..=8 (symbolic)", assumptions=ZSTD_ASSUME)
H("k11b_zstd_not_a_frame", "preflate_container", ["C11", "C05"], unwind=12, timeout=1200, mem_gb=14,
  claim="input that is not a well-formed frame gives Err, never a panic",
  functions=["decompress_zstd"], bounds="every non-frame input of <= 10 bytes x capacities 0..=16", assumptions=ZSTD_ASSUME)
ABI_ASSUME = ZSTD_ASSUME + ["scratch-copy-only substitution: the import of std::panic::catch_unwind in src/lib.rs is replaced under cfg(kani) by a shim that calls the closure (Kani 0.68 ICEs on the intrinsic; no unwinding semantics): 'never unwinds' is not decided"]
H("k12a_wrapper_compress", "lib", ["C12"], unwind=4, unwindset={"wrapper_compress": 30, "next_signature": 4, "literal_only": 3}, timeout=1200, mem_gb=14,
  claim="WrapperCompressZip: 0 only with *result_size <= capacity (= bytes produced), negative when the buffer is too small, guard bytes on both sides untouched, CBMC pointer checks pass",
  functions=["WrapperCompressZip"], bounds="(length, capacity) instances (0,7) (0,8) (3,10) (3,11) (3,20): one short / exact fit / generous; content symbolic", assumptions=ABI_ASSUME)
H("k12b_wrapper_roundtrip", "lib", ["C12"], unwind=4, unwindset={"wrapper_roundtrip": 16, "next_signature": 4, "literal_only": 3}, timeout=1200, mem_gb=14,
  claim="WrapperCompressZip then WrapperDecompressZip returns the file for every sufficient capacity, negative status for every smaller one, never writes outside the buffer",
  functions=["WrapperCompressZip", "WrapperDecompressZip", "recreated_zlib_chunks"], bounds="(length, capacity) instances (3,2) (3,3) (0,0) (3,6); content symbolic", assumptions=ABI_ASSUME)
H("k12a_wrapper_compress_more", "lib", ["C12"], unwind=4, unwindset={"wrapper_compress": 30, "next_signature": 4, "literal_only": 3}, timeout=3000, mem_gb=14, tier="thorough",
  claim="as k12a_wrapper_compress", functions=["WrapperCompressZip", "expand_zlib_chunks"], bounds="(0,0) (2,9) (2,10) (1,12) (length, capacity) instances", assumptions=ABI_ASSUME)
H("k12b_wrapper_roundtrip_more", "lib", ["C12"], unwind=4, unwindset={"wrapper_roundtrip": 16, "next_signature": 4, "literal_only": 3}, timeout=3000, mem_gb=14, tier="thorough",
  claim="as k12b_wrapper_roundtrip", functions=["WrapperCompressZip", "WrapperDecompressZip"], bounds="(3,0) (2,1) (1,1) (2,5) (length, capacity) instances", assumptions=ABI_ASSUME)
H("k12c_wrapper_decompress_garbage", "lib", ["C12", "C05"], unwind=14, timeout=1200, mem_gb=14,
  claim="WrapperDecompressZip on bytes that are not a frame: negative status, nothing written outside the buffer",
  functions=["WrapperDecompressZip"], bounds="every non-frame input of <= 12 bytes x capacity 0..=4", assumptions=ABI_ASSUME)

# ---------------------------------------------------------------- tree predictor
H("k05b_tc_len_total", "tree_predictor", ["C05", "C01"], unwind=20,
  claim="calc_tc_lengths_without_trailing_zeros never indexes out of range and returns min(n,4)..=19",
  functions=["tree_predictor::calc_tc_lengths_without_trailing_zeros"],
  bounds="every u8 slice of length 1..=19 (calc_bit_lengths trims trailing zero symbols, so short slices occur)")

TREE_FUNCS = ["tree_predictor::predict_ld_trees", "tree_predictor::reconstruct_ld_trees", "predict_code_type", "predict_code_data"]
H("k02b_ld_mirror_14_3", "tree_predictor", ["C02", "C08"], unwind=16, timeout=1200, mem_gb=14,
  claim="reconstruct_ld_trees(predict_ld_trees(pred, target)) == target and the codec is consumed exactly, for every predicted length vector and every target RLE sequence",
  functions=TREE_FUNCS, bounds="predicted vectors of length <= 14 (any u8 values), target sequences of <= 3 RLE items (Code 0..15, Repeat 3..6, ZeroShort 3..10, ZeroLong 11..14) covering the vector exactly",
  assumptions=["recording codec Rec"])
H("k02b_ld_mirror_24_4", "tree_predictor", ["C02", "C08"], tier="experimental", unwind=26, timeout=3000, mem_gb=20,
  claim="as k02b_ld_mirror_14_3 with vectors <= 24 and <= 4 items", functions=TREE_FUNCS, bounds="L <= 24, K <= 4", assumptions=["recording codec Rec"])
H("k02c_tree_mirror", "tree_predictor", ["C02", "C08", "C05"], unwind=8, unwindset={"predict_code_type": 12, "predict_code_data": 140, "k02c": 21, "stub_calc_bit_lengths": 21,
  "calc_tc_lengths": 20, "predict_tree_for_block": 20, "recreate_tree_for_block": 20},
  timeout=2400, mem_gb=20, tier="experimental",
  claim="recreate_tree_for_block(predict_tree_for_block(header)) == header: HLIT/HDIST/HCLEN flags and values, RLE items, code-length-alphabet corrections",
  functions=["tree_predictor::predict_tree_for_block", "tree_predictor::recreate_tree_for_block", "calc_tc_lengths_without_trailing_zeros", "calc_codetree_freq"] + TREE_FUNCS,
  bounds="HLIT 257..288, HDIST 1..32, HCLEN 4..19, predicted counts 257..286/1..30/1..19 symbolic, 3 RLE items (two long zero runs + any third), code-length-alphabet lengths any 0..7",
  assumptions=["huffman_calc::calc_bit_lengths replaced by a deterministic stand-in of symbolic shape (both sides call it with equal arguments)", "recording codec Rec"])

# ---------------------------------------------------------------- matcher over the model chain (C02, C05, C08)
MODEL_ASSUME = ["model hash chain at the HashChain trait seam: solver-chosen candidate lists (<= 3 per position/offset, any order), same on both sides, update_hash no-op; the real hash tables (hash_chain.rs) are not executed",
                "parameters symbolic over estimator_range (printed in harness/common.rs)", "valid_reference precondition: the reference's bytes match the text (guaranteed by decode_block)"]
HOLDER_FUNCS = ["HashChainHolderImpl::calculate_hops", "HashChainHolderImpl::hop_match", "hash_chain_holder::prefix_compare", "PreflateInput::*"]
HOLDER_UW = {"try_from_fn_erased": 16, "prefix_compare": 14, "valid_reference": 14, "ModelChain.*any": 14, "calculate_hops": 5, "hop_match": 5, "match_token_offset": 5, "from_fn": 5}
for w in ("h3", "h4"):
    H("k02d_hops_inverse_" + w, "hash_chain_holder", ["C02", "C08"], unwind=6, unwindset=HOLDER_UW, timeout=1800, mem_gb=16,
      claim="if calculate_hops(target) = Ok(h) then hop_match(len, h) = Ok(target.dist) on the same chain; neither panics (%s-byte hash width)" % w[1],
      functions=HOLDER_FUNCS, bounds="texts of 4..=12 bytes, every position, every valid reference, <= 3 chain candidates per position, every parameter vector in estimator_range",
      outside="longer texts/chains; the real hash-table walk", assumptions=MODEL_ASSUME)
    for o in ("o0", "o1"):
        H("k05e_match_total_%s_%s" % (w, o), "hash_chain_holder", ["C05", "C08", "C02"], unwind=6, unwindset=HOLDER_UW, timeout=1800, mem_gb=16,
          claim="match_token_offset::<%s> never panics (prefix_compare assertion, slice bounds, max_chain arithmetic) and a Success result is a valid reference into the text (%s-byte hash width)" % (o[1], w[1]),
          functions=["HashChainHolderImpl::match_token_offset", "hash_chain_holder::prefix_compare"],
          bounds="texts of 3..=12 bytes, every position >= 1 with >= 3 bytes left, <= 3 candidates, estimator_range; offset-1 calls with prev_len >= 3 and remaining >= prev_len + 2 as predict_token guarantees",
          assumptions=MODEL_ASSUME)

TOKEN_FUNCS = ["TokenPredictor::predict_block", "TokenPredictor::recreate_block", "TokenPredictor::predict_token", "TokenPredictor::repredict_reference",
               "TokenPredictor::commit_token", "HashChainHolderImpl::{match_token_offset, calculate_hops, hop_match, update_hash}", "DictionaryAddPolicy::update_hash",
               "prefix_compare", "encode_difference/decode_difference"]
TOKEN_UW = dict(HOLDER_UW, **{"predict_block": 5, "recreate_block": 6, "any_tokens": 5, "token_mirror": 5, "same_ops": 50, "same_dictionary_updates": 18, "ModelChain.*update_hash": 10})
# measured: out of memory (20 GB) within 6-10 min even at text 6 / 2 tokens / 1 candidate: thorough tier only, NOT part of any quick claim
for nm, lazy, w, tier in (("greedy_h3", False, 3, "experimental"), ("lazy_h3", True, 3, "experimental"), ("greedy_h4", False, 4, "experimental"), ("lazy_h4", True, 4, "experimental")):
    H("k02e_token_mirror_" + nm, "token_predictor", ["C02", "C08", "C05"], unwind=6, unwindset=TOKEN_UW, timeout=5400, mem_gb=44, tier=tier,
      claim="recreate_block(predict_block(tokens)) == tokens and the corrections are consumed exactly, or predict_block returns Err; no panic (%s matching rows, %d-byte hash width)" % ("lazy" if lazy else "greedy", w),
      functions=TOKEN_FUNCS, bounds="texts of <= 6 bytes, every valid tokenisation of a prefix into <= 2 tokens (literals / valid references, irregular-258 flag), <= 1 candidate per position and offset, fixed or dynamic block type, last/non-last, every parameter vector in estimator_range with %s matching" % ("lazy" if lazy else "greedy"),
      outside="longer texts, more tokens, longer chains, the real hash tables", assumptions=MODEL_ASSUME + ["recording codec Rec"])
H("k02e_token_mirror_lazy_h3_t8", "token_predictor", ["C02", "C08"], unwind=6, unwindset=TOKEN_UW, timeout=7200, mem_gb=40, tier="experimental",
  claim="as k02e_token_mirror_lazy_h3 with text <= 8, <= 3 tokens, <= 2 candidates", functions=TOKEN_FUNCS, bounds="T <= 8, 3 tokens, 2 candidates", assumptions=MODEL_ASSUME + ["recording codec Rec"])
H("k02f_block_structure", "process", ["C02", "C08", "C05"], tier="experimental", unwind=6, unwindset={"bit_writer::BitWriter::pad": 9, "k02f": 12, "same_ops": 50}, timeout=2400, mem_gb=20, needs_gen=True,
  claim="decode_mispredictions(encode_mispredictions(blocks)) reproduces exactly the bytes the real writer emits for the blocks: block types, stored length/padding, TokenCount signalling, empty blocks, EOF flags, final padding",
  functions=["process::encode_mispredictions", "process::predict_blocks", "process::decode_mispredictions", "process::recreate_blocks", "TokenPredictor::predict_block/recreate_block (literal-only paths)",
             "DeflateWriter::encode_block", "DeflateWriter::flush_with_padding"],
  bounds="every list of <= 3 blocks, each stored (<= 2 bytes, any 5 padding bits) or fixed-Huffman with <= 2 literals; max_token_count any u16 >= 1; any final padding byte; no dictionary (HashAlgorithm::None)",
  outside="dynamic blocks (need the Huffman length calculator over 316 symbols), reference tokens (k02e)", assumptions=FIXED_ASSUME[:1] + ["recording codec Rec"])
for nb, tier in ((1, "quick"), (2, "quick"), (3, "quick"), (4, "thorough")):
    H("k02p_block_sequence_%d" % nb, "process", ["C02", "C08", "C05"], tier=tier, unwind=6, unwindset={"block_sequence": 6, "predict_blocks": nb + 2, "recreate_blocks": nb + 2}, timeout=1800, mem_gb=16,
      claim="block sequence / EOF signalling mirror: the REAL encode_mispredictions / predict_blocks / decode_mispredictions / recreate_blocks, over contract stubs of the per-block mirrors, hand the writer exactly the original block list (order, types, each dynamic block with its own Huffman header, final flag on the last block only), restore the trailing padding and consume the corrections exactly; predict_block gets last_block only for the last block",
      functions=["process::encode_mispredictions", "process::predict_blocks", "process::decode_mispredictions", "process::recreate_blocks", "TokenPredictor::new", "TokenPredictor::input_eof"],
      bounds="block lists of exactly %d block(s); per block: any type, plaintext length 0..=2 (incl. empty blocks before, between and after the plaintext), any Huffman header tag; any trailing padding byte; predict_block may fail at any call" % nb,
      outside="more than 3 blocks; what happens inside the per-block mirrors (k02m_*, k02b, k07c)",
      assumptions=["TokenPredictor::predict_block / recreate_block replaced by contract stubs (record / replay of block type, identity and plaintext length; input advanced by the plaintext length; discharged by k02m_contract_mirror_*)",
                   "predict_tree_for_block / recreate_tree_for_block replaced by a marker pair carrying the header's identity (discharged by k02b_ld_mirror_*, k07c)",
                   "DeflateWriter::encode_block / flush_with_padding replaced by loggers (the writer itself: k07a, k07w, k07x)",
                   "parse_deflate's postcondition assumed: plain_text is the concatenation of the blocks' plaintext", "recording codec Rec", "no dictionary (HashAlgorithm::None)"])
H("k03e_consumed_prefix", "process", ["C03", "C02", "C05"], tier="thorough", unwind=10, timeout=3000, mem_gb=12,
  claim="parse_deflate: compressed_size is the byte cursor after the final block; bytes after it influence nothing (replaced or removed: same result)",
  functions=["process::parse_deflate", "DeflateReader::read_block (stored)", "DeflateReader::read_eof_padding"], bounds="all 8-byte inputs whose single final block is stored (payload 0..=3)")

# ---------------------------------------------------------------- C04: kernel equivalence vs the frozen reference crate
REF_ASSUME = ["reference = /verif/reference/preflate_ref (frozen copy of /repo at REFERENCE_COMMIT: pinned release + recorded fix: commits), linked into the same Kani run",
              "both sides are reached through the same plain-typed export module text (/verif/reference/export/*.rs) compiled against each tree"]
def K4(name, module, claim, functions, bounds, **kw):
    H(name, module, ["C04"] + kw.pop("also", []), claim=claim, functions=functions, bounds=bounds, assumptions=REF_ASSUME, needs_ref=True, **kw)
K4("k04a_hash_equiv", "hash_algorithm", "the shift/xor/table hash functions (zlib rotating, miniz, random vector, crc32c) return the reference build's value", ["*Hash::get_hash", "num_hash_bytes"],
   "every 4-byte input; Zlib rotating hash with every mask and shift <= 15", unwind=5, timeout=900)
K4("k04a_hash_equiv_mul", "hash_algorithm", "the multiplicative hash functions (libdeflate 4-byte, fast variant, secondary 3-byte, zlib-ng) return the reference build's value", ["*Hash::get_hash", "num_hash_bytes"],
   "every 4-byte input", unwind=5, timeout=3000, tier="experimental")
K4("k04b_enum_discriminants", "statistical_codec", "numbering of the enums written as values (strategies, block types, tree code types), chunk tags, version and match constants equals the reference build's (context-enum numbering is deliberately not compared: a permutation of equally-initialised slots is not a format change)",
   ["enum discriminants", "format constants"], "all variants (concrete)", unwind=21, timeout=600)
K4("k04c_add_policy_calls", "add_policy_estimator", "DictionaryAddPolicy::update_hash makes the same dictionary insertions as the reference build and only in-range ones; is_at_32k_boundary agrees",
   ["DictionaryAddPolicy::update_hash", "is_at_32k_boundary"], "5 policies x limit 0..=258 x pos < 2^30 x length 1..=258 x remaining input 1..=260", unwind=5, timeout=900, also=["C05"])
K4("k03a_tables", "preflate_constants", "length/distance base and extra tables equal RFC 1951's, quantize_* selects the code whose range contains the value, code-length order equals the RFC's; all equal the reference build's",
   ["quantize_length", "quantize_distance", "LENGTH_/DIST_ BASE/EXTRA tables", "TREE_CODE_ORDER_TABLE"], "all 29/30 codes, all lengths 3..=258, all distances 1..=32768", unwind=3, timeout=600, also=["C03", "C07"])
K4("k04d_zlib_lengths_3", "huffman_calc", "zlib-style Huffman length calculation returns the reference build's code lengths (tie-breaks included)", ["huffman_calc::calc_zlib::calc_bit_lengths", "pqdownheap"],
   "3 symbols, frequencies 0..=3, limit 7", unwind=8, timeout=1500, mem_gb=16, outside="more symbols / larger frequencies: a tie-break change that needs > 4 symbols escapes", tier="experimental")
K4("k04d_zlib_lengths_single", "huffman_calc", "degenerate cases of the zlib-style length calculation (no symbol, or exactly one symbol used) return the reference build's code lengths: which dummy second symbol completes a one-symbol code is part of the stored format", ["huffman_calc::calc_zlib::calc_bit_lengths"],
   "6-symbol alphabets with at most one non-zero frequency (every position, frequencies 1 and 65535: the branch taken depends only on which symbol is used), limits 15 and 7; concrete inputs: the solver decides a constant-folded formula", unwind=9, unwindset={"zlib_single": 10}, timeout=1500, mem_gb=16, outside="two or more used symbols (k04d_zlib_lengths_3/4, experimental)")
K4("k04d_zlib_lengths_4", "huffman_calc", "as k04d_zlib_lengths_3 with 4 symbols", ["huffman_calc::calc_zlib::calc_bit_lengths"], "4 symbols, frequencies 0..=3, limit 7", unwind=9, timeout=3000, mem_gb=20, tier="experimental")
K4("k04e_rle_predictor_equiv", "tree_predictor", "predict_code_type / predict_code_data return the reference build's prediction", ["predict_code_type", "predict_code_data"],
   "every slice of 1..=12 code lengths, with/without previous code, every code type", unwind=14, timeout=900)
K4("k04e_rle_long_runs", "tree_predictor", "run-length thresholds (3, 6, 10, 11, 138) agree with the reference build on long runs", ["predict_code_type", "predict_code_data"],
   "all-zero and all-equal runs of every length 1..=140 (concrete content, symbolic length)", unwind=142, timeout=1500, mem_gb=12)
K4("k04e_ld_ops_equiv", "tree_predictor", "calc_tc_lengths_without_trailing_zeros, calc_codetree_freq and the correction sequence of predict_ld_trees equal the reference build's",
   ["calc_tc_lengths_without_trailing_zeros", "predict_ld_trees", "calc_codetree_freq"], "all 19-entry length vectors; predicted vectors <= 10 with <= 2 RLE items", unwind=21, timeout=1500, mem_gb=14, tier="experimental")
K4("k04f_param_header_equiv", "preflate_parameter_estimator", "PreflateParameters::write emits the same field sequence (order, widths, values) as the reference build", ["PreflateParameters::write"],
   "every parameter vector in estimator_range with min_len set", unwind=42, timeout=900)
K4("k04g_nodict_params_equiv", "preflate_parameter_estimator", "the parameter vector estimated for dictionary-free streams (incl. default block size 16386) equals the reference build's",
   ["estimate_preflate_parameters (Store / HuffOnly branch)", "extract_preflate_info", "estimate_preflate_strategy", "estimate_preflate_huff_strategy"], "one stored block / one literal-only fixed block (concrete)", unwind=42, timeout=900, mem_gb=16, tier="experimental")
K4("k04h_cabac_symbols_equiv", "cabac_codec", "binarisation: the bits put on the arithmetic coder for two operations + finish, their bypass/adaptive split and the partition of symbols into adaptive context slots (up to renaming) equal the reference build's; encode/decode_difference agree",
   ["PredictionCabacContext::encode_*", "write_exp_encoded", "flush_encode", "encode_difference", "decode_difference"], "all pairs of operations (3 kinds each), values < 16, widths 1..=4", unwind=18, unwindset={"k04h": 26}, timeout=1800, mem_gb=16)
K4("k04i_container_bytes_equiv", "preflate_container", "varint bytes, literal chunk framing and IDAT descriptor layout equal the reference build's", ["write_varint", "write_chunk_block (literal)", "IdatContents::write_to_bytestream"],
   "every u32; literal data <= 3 bytes; <= 2 chunk sizes < 2^28", unwind=22, timeout=900, also=["C01"], tier="experimental")

# ---------------------------------------------------------------- C06: detection with an offset oracle
C06_ASSUME = ["decompress_deflate_stream replaced by an offset oracle: accepts (1025 bytes of plaintext) exactly at the true stream start, rejects elsewhere, asserts verify = true",
              "prefix/suffix: 2 symbolic bytes each; the wrapper's own signature is the only signature look-alike in the file"]
H("k06a_find_zlib", "scan_deflate", ["C06"], tier="experimental", unwind=6, unwindset={"next_signature": 12, "signature_hits": 12}, timeout=1200, mem_gb=16,
  claim="a stream behind 78 01 / 78 5E / 78 9C / 78 DA is emitted as a DeflateStream chunk starting exactly after the 2-byte header", functions=["split_into_deflate_streams (zlib arm)", "next_signature"],
  bounds="4 headers x arbitrary 2-byte prefix/suffix", assumptions=C06_ASSUME)
H("k06b_find_gzip", "scan_deflate", ["C06"], tier="experimental", unwind=6, unwindset={"next_signature": 32, "signature_hits": 32, "k06b": 4, "skip_gzip_header": 5}, timeout=1800, mem_gb=20,
  claim="a stream behind a gzip header with any subset of FEXTRA/FNAME/FCOMMENT/FHCRC is emitted as a DeflateStream chunk starting exactly after the header",
  functions=["split_into_deflate_streams (gzip arm)", "skip_gzip_header", "next_signature"], bounds="all 16 flag subsets, FEXTRA length 0..=2, name/comment length 0..=2, any mtime/xfl/os bytes", assumptions=C06_ASSUME)
H("k06c_find_zip", "scan_deflate", ["C06"], tier="experimental", unwind=6, unwindset={"next_signature": 42, "signature_hits": 42}, timeout=1800, mem_gb=20,
  claim="a stream behind a ZIP local file header (method 8) is emitted as a DeflateStream chunk starting exactly after name and extra field",
  functions=["split_into_deflate_streams (zip arm)", "parse_zip_stream", "ZipLocalFileHeader::create_and_load"], bounds="name/extra lengths 0..=2 each, all other header fields arbitrary", assumptions=C06_ASSUME)

H("k05d_info_params", "preflate_parameter_estimator", ["C05", "C02", "C08"], unwind=5, timeout=1500, mem_gb=16,
  claim="estimate_preflate_parameters is total on every small block list and the vector it returns survives PreflateParameters::write -> read (incl. streams whose Huffman blocks hold no reference)",
  functions=["estimate_preflate_parameters", "extract_preflate_info", "estimate_preflate_strategy", "estimate_preflate_huff_strategy", "estimate_preflate_window_bits", "estimate_preflate_mem_level",
             "PreflateParameters::write", "PreflateParameters::read"],
  bounds="every list of <= 2 blocks (stored / fixed / dynamic) with <= 2 tokens each (literals, references 3..=258 / 1..=32768)",
  assumptions=["estimate_preflate_comp_level and estimate_add_policy replaced by range stubs (results in recommend()'s range, min_len and add_policy passed through): the table-based estimators are out of reach"])
H("k02h_add_policy_range", "add_policy_estimator", ["C02", "C08"], tier="experimental", unwind=5, unwindset={"estimate_add_policy": 262}, timeout=1800, mem_gb=20,
  claim="estimate_add_policy returns limits that fit the parameter header's 8-bit field", functions=["add_policy_estimator::estimate_add_policy"],
  bounds="one block: literal, reference (len 3..=258, dist 1), reference (len 3..=258, any distance into the previous match)", outside="longer token sequences")

H("k05g_chain_position_step", "hash_chain", ["C05"], unwind=4, timeout=1500, mem_gb=20,
  claim="real hash chain position bookkeeping: from any state with 8 <= pos - total_shift <= 0xfffe, update_hash(pos, len <= 258) then iterate(next pos, offset 0|1) never overflows the u16 internal position, and the same invariant holds again (inductive: covers inputs of any length)",
  functions=["HashChainNormalize::update_hash (threshold, reshift bookkeeping)", "HashChainNormalize::iterate (ref_pos, head lookup, first dist)", "InternalPosition::from_absolute/dist/is_valid"],
  bounds="total_shift in {-8, 0x7df8, 0xfbf8}, every pos satisfying the invariant, every length 1..=258, offset 0|1; one inductive step",
  assumptions=["hash table = arbitrary (nondeterministic) heap object; HashTable::update_chain and HashTable::reshift are no-op stubs (the 64K tables are out of reach)",
               "the consulted head entry is an arbitrary internal position not after the reference position (what update_chain maintains)"])

H("k10d_public_codec_finish", "cabac_codec", ["C10"], unwind=18, timeout=900, mem_gb=14,
  claim="through the public PredictionEncoderCabac / PredictionDecoderCabac types: after any two operations, finish() always terminates the coder and flushes a pending default; the decoder reads the operations back",
  functions=["PredictionEncoderCabac::{new, encode_*, finish}", "PredictionDecoderCabac::{new, decode_*}"], bounds="all pairs of operations (3 kinds each), values < 16, widths <= 4", assumptions=CABAC_ASSUME)
H("k13c_recreate_idat_partial_writes", "idat_parse", ["C13", "C01"], unwind=6, unwindset={"update_cheap": 12, "recreate_idat": 4, "k13c": 42}, timeout=1200, mem_gb=16,
  claim="recreate_idat writes identical bytes into a destination that accepts one byte per call and into a Vec", functions=["idat_parse::recreate_idat"],
  bounds="two IDAT chunks (5 + 4 bytes), symbolic payload / header / Adler-32", assumptions=IDAT_ASSUME[1:] + ["FragWrite with one-byte partial writes"])

H("k03f_write_reference", "deflate_reader", ["C03"], unwind=4, unwindset={"write_reference": 260}, timeout=2400, mem_gb=20,
  claim="DeflateReader::write_reference implements the RFC 1951 window copy (each new byte equals the byte `dist` back), no out-of-range index",
  functions=["DeflateReader::write_reference"], bounds="every distance 1..=64 (symbolic) x lengths 3 and 70 (overlapping copy) over a 64-byte window with position-dependent content; the checked output index is symbolic")
H("k03f_write_reference_far3", "deflate_reader", ["C03", "C05"], tier="quick", unwind=6, unwindset={"write_reference": 6, "write_reference_far": 6}, timeout=1800, mem_gb=20,
  claim="as k03f_write_reference at the far end of a full 32 KiB window, short copies", functions=["DeflateReader::write_reference"],
  bounds="(distance, length) = (32768,3) (32767,3) (32766,4) over a 32768-byte window of position-dependent content", outside="other far distances; long copies at far distances",
  assumptions=["alloc::alloc::realloc stubbed by an assertion that it is unreachable (the window Vec is given capacity for the copy up front)"])
H("k03f_write_reference_far", "deflate_reader", ["C03"], tier="experimental", unwind=4, unwindset={"write_reference": 260}, timeout=2400, mem_gb=20,
  claim="as k03f_write_reference at the far end of a full window", functions=["DeflateReader::write_reference"],
  bounds="(distance, length) = (32768,258) (32768,3) (32767,258) (4096,3) over a 32768-byte window", outside="other distances above 300")
G_UW = {"decode_symbol": 11, "BitReader.*get": 4, "put_bits": 14, "put_code": 10, "k03g": 32, "read_block": 3, "decode_block": 3}
for nm, tier in (("len_27_28", "quick"), ("dist_28_29", "quick"), ("len_24_28", "thorough"), ("dist_24_29", "thorough"), ("len_0_7", "thorough"), ("len_8_11", "thorough"), ("len_12_15", "thorough"), ("len_16_19", "thorough"), ("len_20_23", "thorough"),
                 ("dist_0_7", "thorough"), ("dist_8_11", "thorough"), ("dist_12_15", "thorough"), ("dist_16_19", "thorough"), ("dist_20_23", "thorough")):
    kind, lo, hi = nm.split("_")
    H("k03g_fixed_reader_" + nm, "deflate_reader", ["C03", "C07", "C05"] if tier == "quick" else ["C03"], unwind=6, unwindset=dict(G_UW, len_codes=10, dist_codes=10), timeout=3600, mem_gb=20, needs_gen=True, tier=tier,
      claim="the real reader (read_block / decode_block / decode_symbol / BitReader) decodes a fixed-Huffman reference token to RFC 1951's base + extra for %s codes %s..=%s with every extra-bit value, flags 284+31, and consumes exactly the bytes of the block" % ("length" if kind == "len" else "distance", lo, hi),
      functions=["DeflateReader::read_block", "DeflateReader::decode_block", "huffman_helper::decode_symbol", "BitReader::get", "LENGTH_/DIST_ BASE/EXTRA tables"],
      bounds="%s codes %s..=%s (concrete, looped) x all extra-bit values (symbolic); the other code fixed to its first entry" % (kind, lo, hi),
      outside="a long length code together with a long distance code in one token (independent reads)",
      assumptions=FIXED_ASSUME[:1] + ["write_reference stubbed to a no-op (k03f decides it); bit layout concrete per instance, extra bits symbolic"])

K4("k04j_predict_block_equiv", "token_predictor", "predict_block emits the same correction sequence as the reference build for the same text, tokens, parameters and candidate lists (walk order, nice-length cut-off, lazy rule, hop counting, length/distance corrections)",
   ["TokenPredictor::predict_block", "TokenPredictor::predict_token", "repredict_reference", "HashChainHolderImpl::{match_token_offset, calculate_hops}", "encode_difference"],
   "texts <= 7 bytes, <= 3 tokens, <= 2 candidates per position, every parameter vector in estimator_range, 3-byte hash width", unwind=6, unwindset=TOKEN_UW, timeout=5400, mem_gb=30, tier="experimental")

H("k06d_signature_table", "scan_deflate", ["C06", "C05"], unwind=5, timeout=600,
  claim="next_signature reports a byte pair exactly when it is one of the seven documented signatures, at the right offset, with the right kind",
  functions=["scan_deflate::next_signature"], bounds="every 3-byte input")

for w in ("h3", "h4"):
    # thorough only: on the unchanged tree this harness SUCCEEDS in most builds but in some builds of identical sources
    # (Kani emits std's UB precondition checks in one build and not in the other) CBMC reports realloc/pointer
    # failures that do not reproduce natively -> inconclusive; not stable enough for the quick tier (DESIGN §6)
    H("k02e_stored_mirror_" + w, "token_predictor", ["C02", "C08"], tier="quick", unwind=8, unwindset=dict(TOKEN_UW, stored_mirror=8, same_dictionary_updates=18, update_hash=8, predict_block=8, recreate_block=8), timeout=1800, mem_gb=16,
      claim="stored block: recreate_block(predict_block(b)) == b, and both sides insert exactly the same positions into the dictionary (every add policy)",
      functions=["TokenPredictor::predict_block / recreate_block (stored arm)", "HashChainHolderImpl::update_hash", "DictionaryAddPolicy::update_hash"],
      bounds="stored blocks of 1..=6 bytes, every parameter vector in estimator_range (all 5 add policies)", assumptions=MODEL_ASSUME[:2] + ["recording codec Rec"])

H("k07c_dyn_header_rt", "huffman_encoding", ["C07", "C05", "C03"], tier="thorough", unwind=6, unwindset={"dyn_header": 66, "decode_symbol": 5, "HuffmanOriginalEncoding.*read": 12, "HuffmanOriginalEncoding.*write": 10,
  "calculate_huffman_code_tree": 21, "is_valid_huffman_code_lengths": 21, "calc_huffman_codes": 21, "BitWriter::pad": 9, "flush_whole_bytes": 6}, timeout=2400, mem_gb=24,
  claim="dynamic header: HuffmanOriginalEncoding::read never panics, accepts only code-length tables with exactly HLIT + HDIST entries, and HuffmanOriginalEncoding::write reproduces exactly the bits that were read (every run-length choice incl. code 16 after a zero run)",
  functions=["HuffmanOriginalEncoding::read", "HuffmanOriginalEncoding::write", "huffman_helper::calculate_huffman_code_tree", "huffman_helper::decode_symbol", "huffman_helper::calc_huffman_codes", "BitWriter::write/pad"],
  bounds="HLIT = 257, HDIST = 1, HCLEN = 5 with the code-length code {0:2, 8:2, 18:2, 16:3, 17:3} (concrete); all sequences of run-length items and extra bits that fit in 16 bit-reader calls (symbolic)",
  outside="other code-length codes, HLIT/HDIST slack, tables longer than 16 reads", assumptions=["scripted + symbolic recording bit source (ReadBits seam)", "BitWriter::flush_whole_bytes replaced by a non-reallocating equivalent"])

for sfx, tbl in (("257_1", "HLIT 257, HDIST 1"), ("286_30", "HLIT 286, HDIST 30"), ("288_32", "HLIT 288, HDIST 32 (the fields' maxima)")):
    H("k07e_dyn_header_read_post_" + sfx, "huffman_encoding", ["C05", "C07", "C03"], tier="quick", unwind=8, unwindset={"dyn_header_post": 22, "HuffmanOriginalEncoding.*read": 21}, timeout=1500, mem_gb=20,
      claim="HuffmanOriginalEncoding::read: Ok implies the counts equal the fields read, HCLEN in range, the code-length code stored in RFC order with zeros beyond HCLEN, every run-length item inside its range, and the items covering exactly HLIT + HDIST entries (what predict_ld_trees asserts and write() relies on); never a panic",
      functions=["HuffmanOriginalEncoding::read", "HuffmanOriginalEncoding::get_tree_code_adjustment"],
      bounds=tbl + " (concrete per instance); every HCLEN, every code-length code, every sequence of <= 6 run-length symbols (incl. invalid symbol 19) with every extra-bits value; tables needing more than 6 items are cut by the read budget",
      outside="tables of more than 6 run-length items (k07c in the thorough tier: 16 reads over a concrete code); other HLIT / HDIST values", assumptions=["calculate_huffman_code_tree replaced by its contract (Err or a tree; discharged by k03d / k07d)", "decode_symbol replaced by its contract (Err, or any u16 <= 19 after consuming one bit)", "scripted + symbolic recording bit source (ReadBits seam) with a read budget of 34 calls"])
H("k07e_dyn_header_read_post_more", "huffman_encoding", ["C05", "C07", "C03"], tier="thorough", unwind=8, unwindset={"dyn_header_post": 22, "HuffmanOriginalEncoding.*read": 21}, timeout=3000, mem_gb=24,
  claim="as k07e_dyn_header_read_post_* for tables of up to 10 run-length items", functions=["HuffmanOriginalEncoding::read"], bounds="HLIT 260, HDIST 8; every HCLEN, code-length code and sequence of <= 10 run-length symbols with every extra-bits value",
  assumptions=["calculate_huffman_code_tree / decode_symbol replaced by their contracts", "scripted + symbolic recording bit source (ReadBits seam)"])
H("k03h_dyn_lengths_expand_small", "huffman_encoding", ["C03", "C07", "C04"], tier="quick", unwind=10, unwindset={"k03h": 9, "rfc_expand": 10, "dyn_lengths_shape": 12, "get_literal_distance_lengths": 12, "to_vec|ConvertVec|clone_from_slice|spec_extend": 14}, timeout=900, mem_gb=12,
  claim="as k03h_dyn_lengths_expand with the literal/distance split point at 4 (the function does not depend on HLIT >= 257): small enough for counterexamples to be replayed natively",
  functions=["HuffmanOriginalEncoding::get_literal_distance_lengths"], bounds="two layouts: 4 + 3 explicit lengths; 3 explicit lengths, a repeat of 4 crossing the split, a zero run of 3, one explicit length; every code length 0..=15", outside="other layouts")
H("k03h_dyn_lengths_expand", "huffman_encoding", ["C03", "C07", "C04"], tier="quick", unwind=8, unwindset={"k03h": 12, "rfc_expand": 140, "dyn_lengths_shape": 20, "get_literal_distance_lengths": 140, "to_vec|ConvertVec|clone_from_slice|spec_extend": 260}, timeout=1500, mem_gb=16,
  claim="the code lengths both the reader and the writer of a dynamic block build their Huffman codes from (HuffmanOriginalEncoding::get_literal_distance_lengths) equal the RFC 1951 3.2.7 expansion of the run-length items split at HLIT: no symbol added, dropped or moved (a repeat may cross the literal/distance boundary)",
  functions=["HuffmanOriginalEncoding::get_literal_distance_lengths"],
  bounds="three concrete item layouts (HLIT 257 with HDIST 3 / 6 / 15: two long zero runs, explicit lengths, a repeat crossing into the distance code, a short zero run); every code length value 0..=15 symbolic",
  outside="other layouts; the Huffman code built from these lengths (k03d fixed code, k07d)")
for sfx, shp, tr in (("exact", "predicted counts right: calculator returns 257 / 1 / 19 entries, header HLIT 257, HDIST 1, HCLEN 19", "experimental"), ("exact_6", "predicted counts right: calculator returns 257 / 1 / 6 entries, header HLIT 257, HDIST 1, HCLEN 6", "quick"), ("grow", "predicted counts too small: calculator returns 257 / 1 / 11 entries, header HLIT 286, HDIST 30, HCLEN 7", "experimental"), ("grow_5", "predicted counts too small: calculator returns 257 / 1 / 4 entries, header HLIT 286, HDIST 30, HCLEN 5", "quick"), ("shrink", "predicted counts too large: calculator returns 286 / 30 / 4 entries, header HLIT 257, HDIST 1, HCLEN 4", "quick"),
                      ("exact_8", "calculator returns 257 / 1 / 8 entries, header HLIT 257, HDIST 1, HCLEN 8", "experimental"), ("grow_9", "calculator returns 257 / 1 / 6 entries, header HLIT 286, HDIST 30, HCLEN 9", "thorough")):
    H("k02c_tree_mirror_" + sfx, "tree_predictor", ["C02", "C08", "C05"], tier=tr, unwind=8, unwindset={"tree_mirror_shape": 21, "calc_bit_lengths": 21, "predict_tree_for_block": 21, "recreate_tree_for_block": 21, "predict_code_type": 140, "predict_code_data": 140, "calc_tc_lengths": 21, "calc_codetree_freq": 8, "predict_ld_trees": 10, "reconstruct_ld_trees": 10, "contract_predict_ld": 10, "contract_reconstruct_ld": 10, "ld_digest": 4, "from_elem|resize|extend_with|append|ConvertVec|to_vec": 330, "sum|fold": 8}, timeout=2400, mem_gb=24,
      claim="recreate_tree_for_block(predict_tree_for_block(header)) == header: HLIT / HDIST / HCLEN corrections (in both directions), order of the corrections, run-length items, the code-length code walked in RFC order over HCLEN entries, corrections consumed exactly",
      functions=["tree_predictor::predict_tree_for_block", "tree_predictor::recreate_tree_for_block", "tree_predictor::predict_ld_trees", "tree_predictor::reconstruct_ld_trees", "tree_predictor::calc_codetree_freq", "tree_predictor::calc_tc_lengths_without_trailing_zeros", "predict_code_type", "predict_code_data"],
      bounds=shp + " (sizes, HCLEN and item layout concrete: long zero runs then three explicit code lengths; a symbolic HCLEN needed > 24 GB); the code-length code, the explicit code lengths and the calculator's non-zero outputs symbolic",
      outside="other layouts and HCLEN values; the run-length mirror itself (contract here, decided by k02b_ld_mirror_*); the length calculator itself",
      assumptions=["huffman_calc::calc_bit_lengths replaced by a deterministic stand-in (both sides call it with equal arguments): concrete output sizes, zeros except the last three literal entries, first / last distance entry and the whole code-length-code vector, which are symbolic", "recording codec Rec"])
H("k01a_scan_tiling_paths", "scan_deflate", ["C01", "C05"], tier="experimental", unwind=5, unwindset=SCAN_UW, timeout=3600, mem_gb=30, cbmc_extra=["--paths", "lifo"],
  claim="experimental: k01a_scan_tiling_pairs under CBMC path-based exploration (no path merging, so the cursor stays concrete on each path)",
  functions=["scan_deflate::split_into_deflate_streams"], bounds=SCAN_BOUNDS, assumptions=SCAN_CONTRACTS)

for nm, lazy in (("lr_greedy_h3", False), ("lr_lazy_h3", True)):
    H("k02e_shape_" + nm, "token_predictor", ["C02", "C08"], tier="experimental", unwind=6, unwindset=dict(TOKEN_UW, token_mirror_shape=8), timeout=3600, mem_gb=30,
      claim="token mirror with concrete structure: text of 6 bytes, tokens [literal, reference]; recreate_block(predict_block(tokens)) == tokens, corrections consumed exactly, identical dictionary updates",
      functions=TOKEN_FUNCS, bounds="6-byte text (symbolic bytes), [literal, reference(len, dist symbolic)], <= 1 candidate per position/offset, estimator_range with %s matching" % ("lazy" if lazy else "greedy"),
      assumptions=MODEL_ASSUME + ["recording codec Rec"])

for nm in ("lit_lazy_h3", "ref_lazy_h3", "lit_greedy_h3", "ref_greedy_h3"):
    kind, mt, _ = nm.split("_")
    H("k02e_step_" + nm, "token_predictor", ["C02", "C08", "C05"], tier="experimental", unwind=6, unwindset=dict(TOKEN_UW, token_step=8), timeout=3600, mem_gb=30,
      claim="inductive step of the token mirror: from ANY common pre-state (cursor inside the text, any pending lazy match, any token counter) a block of one %s token is reconstructed by recreate_block from what predict_block recorded, corrections consumed exactly, both sides leave the block in the same state (cursor, pending match, counter) and made identical dictionary updates" % ("literal" if kind == "lit" else "reference"),
      functions=TOKEN_FUNCS, bounds="6-byte text (symbolic bytes), cursor at 2, one %s token (length/distance symbolic), <= 1 candidate per position/offset, estimator_range with %s matching, fixed or dynamic block type" % ("literal" if kind == "lit" else "reference", mt),
      outside="blocks of several tokens are covered only through this step (induction argued, not solver-checked); 4-byte hash width; more than one candidate",
      assumptions=MODEL_ASSUME + ["recording codec Rec", "Vec::push replaced by an equivalent that case-splits on the length (stub_vec_push_any)"])

CONTRACT_ASSUME = ["the matcher behind Box<dyn HashChainHolder> is a contract object at the trait seam: every query gets an arbitrary answer allowed by the matcher's contract (Success inside the text: k05e_match_total_*; hop_match inverts calculate_hops, hop counts >= 1, injective: k02d_hops_inverse_*), the same query in the same dictionary state gets the same answer on both sides; update_hash runs the real DictionaryAddPolicy and logs the inserted positions",
                   "recording codec Rec", "Vec::push replaced by an equivalent that case-splits on the length (stub_vec_push_any)", "at most 8 distinct matcher queries and 4 hop queries per harness (assumed)", "max_token_count = 127 (concrete)", "Vec::reserve with a concrete allocation size for requests <= 16 elements (stub_vec_reserve_concrete)"]
for nm, bnd, uw in (("0", "cursor at 2 of a 6-byte text, empty block", 2), ("1", "cursor at 2 of a 6-byte text, blocks of exactly 1 token", 3), ("2", "cursor at 1 of a 6-byte text, blocks of exactly 2 tokens", 4), ("stored", "cursor at 1 of a 6-byte text, stored blocks of 0, 1 and 4 bytes, any padding bits", 6)):
    H("k02m_contract_mirror_" + nm, "token_predictor", ["C02", "C08", "C05"], tier=("quick" if nm in ("0", "stored", "1") else "thorough"), unwind=6, unwindset={"contract_mirror": 8, "query": 10, "calculate_hops": 6, "hop_match": 6, "update_hash": 8, "valid_reference": 14, "same_dictionary_updates": 18, "predict_block": uw, "recreate_block": uw, "try_from_fn_erased": 16}, timeout=3600, mem_gb=30,
      claim="inductive step of the block/token mirror over the REAL predict_block / recreate_block / predict_token / repredict_reference / commit_token: from any common pre-state (cursor, pending lazy match, token counter) recreate_block rebuilds the block from what predict_block recorded, consumes the corrections exactly, and both sides leave the block in the same state and made identical dictionary insertions",
      functions=["TokenPredictor::predict_block", "TokenPredictor::recreate_block", "TokenPredictor::predict_token", "TokenPredictor::repredict_reference", "TokenPredictor::commit_token", "DictionaryAddPolicy::update_hash"],
      bounds=bnd + "; text bytes, token kinds, lengths, distances, irregular-258 flag, parameters (estimator_range), block type and last-block flag symbolic", outside="longer blocks are covered only through this step (induction argued, not solver-checked)", assumptions=CONTRACT_ASSUME)

for n, tier, uw in ((1, "quick", 3), (2, "quick", 4), (3, "quick", 5)):
    K4("k04m_predict_equiv_%d" % n, "token_predictor", "predict_block emits the same correction sequence as the reference build (token walk, lazy rule, length / distance / hop corrections, irregular-258 flag, TokenCount signalling) when the matcher is replaced on both sides by the same pure function of the query",
       ["TokenPredictor::predict_block", "TokenPredictor::predict_token", "TokenPredictor::repredict_reference", "TokenPredictor::commit_token"],
       "6-byte text, cursor at 1, blocks of exactly %d token(s); text, token kinds/lengths/distances, parameters (estimator_range), block type, last flag and the matcher's answer tables symbolic" % n,
       tier=tier, unwind=6, unwindset={"predict_equiv": 26, "predict_ops_contract": 4, "predict_block": uw, "valid_reference": 14, "try_from_fn_erased": 16}, timeout=3600, mem_gb=30)
for nm, what, geo in (("match_equiv_o0", "match_token_offset::<0>", "near"), ("match_equiv_o1", "match_token_offset::<1>", "near"), ("hops_equiv", "calculate_hops", "near"), ("hop_match_equiv", "hop_match", "near"),
                      ("match_equiv_o0_far", "match_token_offset::<0>", "far"), ("match_equiv_o1_far", "match_token_offset::<1>", "far"), ("hops_equiv_far", "calculate_hops", "far")):
    K4("k04n_" + nm, "hash_chain_holder", "the real %s returns the reference build's answer for the same text, cursor, parameters and candidate lists (window / start-of-file / 3-byte-distance limits, nice-length cut-off, chain depth accounting, hop numbering are part of the stored format)" % what,
       ["HashChainHolderImpl::match_token_offset", "HashChainHolderImpl::calculate_hops", "HashChainHolderImpl::hop_match", "prefix_compare"],
       ("12-byte text, cursor anywhere with >= 3 bytes left" if geo == "near" else "258-byte text, cursor 252 (251 for offset 1) bytes in, window_bits = 9: the window limit 2^9 - 262 + 1 = 251 lies inside the reachable distances") + "; <= 3 candidates per offset with any distances inside the text, parameters in estimator_range, text symbolic",
       tier="quick", unwind=6, unwindset={"matcher_equiv": 6, "valid_reference": (14 if geo == "near" else 262), "prefix_compare": (14 if geo == "near" else 10), "match_token_offset": 6, "calculate_hops": 6, "hop_match": 10, "from_fn|iterate": 6}, timeout=2400, mem_gb=24)
# ---------------------------------------------------------------- thorough-tier deepenings (same lemmas, larger bounds)
H("k01e_idat_more_layouts", "idat_parse", ["C01", "C05", "C06"], tier="thorough", unwind=6, unwindset=IDAT_UW, timeout=2400, mem_gb=24,
  claim="parse_idat totality / postconditions / acceptance on further layouts", functions=IDAT_FUNCS[:1], bounds="layouts (12), (3,4)+5 trailing, (5,1), (2,2)+9 trailing; content symbolic", assumptions=IDAT_ASSUME)
H("k01c_literal_chunks_rt_more", "preflate_container", ["C01", "C13", "C04"], tier="thorough", unwind=9, timeout=1800, mem_gb=16,
  claim="as k01c_literal_chunks_rt", functions=CONT_FUNCS, bounds="shapes (6,3) (6,6) (2,0)", assumptions=["deflate/PNG arms cut by Err stubs"])
H("k13a_fragmented_io_more", "preflate_container", ["C13"], tier="thorough", unwind=8, unwindset=K13_UW, timeout=2400, mem_gb=20,
  claim="as k13a_fragmented_io", functions=CONT_FUNCS, bounds="5-byte file in two chunks (2+3) and one chunk x 4 further fragmentation patterns", assumptions=K13_ASSUME)
H("k13b_io_faults_more", "preflate_container", ["C13", "C05"], tier="thorough", unwind=8, unwindset=K13_UW, timeout=2400, mem_gb=20,
  claim="as k13b_io_faults", functions=CONT_FUNCS, bounds="5-byte file in two chunks (10-byte container): source faults at 5, 9, 10; destination fault at 4", assumptions=K13_ASSUME)
H("k01_gzip_hdr_20", "scan_deflate", ["C06", "C01", "C05"], tier="thorough", unwind=22, unwindset={"gzip_hdr": 22}, timeout=2400, mem_gb=16,
  claim="as k01_gzip_hdr_16 for inputs of <= 20 bytes", functions=["scan_deflate::skip_gzip_header"], bounds="every input of <= 20 bytes", assumptions=["input seam SrcEof<N>"])

H("k07r_bitreader_step", "bit_reader", ["C03", "C07", "C05"], unwind=7, unwindset={"k07r": 7}, timeout=1200, mem_gb=14,
  claim="BitReader::get from any valid state and for any request of 0..=32 bits returns exactly the next stream bits (LSB first), advances the byte cursor minimally and keeps the unread bits buffered (one inductive step: streams of any length)",
  functions=["BitReader::get"], bounds="every state (0..=8 buffered bits, any content) x every request 0..=32 x every 5 following bytes", assumptions=["input seam Src<5>"])
H("k07s_bitwriter_step", "bit_writer", ["C07", "C02", "C05"], unwind=9, timeout=1200, mem_gb=14,
  claim="BitWriter::write from any valid state appends exactly the given bits (LSB first), emits every completed byte, keeps < 8 bits pending; BitWriter::pad fills the last byte with the low bits of the padding pattern",
  functions=["BitWriter::write", "BitWriter::pad"], bounds="every state (0..=7 pending bits) x every value of 1..=25 bits x every padding byte",
  assumptions=["BitWriter::flush_whole_bytes replaced by its non-reallocating equivalent (the real one is decided by k07t_flush_whole_bytes)"])
H("k07t_flush_whole_bytes", "bit_writer", ["C07", "C05"], unwind=6, unwindset={"k07t": 35}, timeout=1200, mem_gb=14,
  claim="the real BitWriter::flush_whole_bytes emits the completed bytes in order and keeps the remaining bits", functions=["BitWriter::flush_whole_bytes"],
  bounds="pending-bit counts 0..=32 (concrete, looped) x any buffer content")
H("k07d_canonical_code_5", "huffman_helper", ["C03", "C07", "C05"], tier="experimental", unwind=7, unwindset={"canon": 7, "is_valid_huffman_code_lengths": 18, "calculate_huffman_code_tree": 8, "calc_huffman_codes": 34}, timeout=2400, mem_gb=20,
  claim="calculate_huffman_code_tree accepts exactly the complete codes; calc_huffman_codes equals the RFC 1951 canonical code; decode_symbol inverts it",
  functions=["huffman_helper::calculate_huffman_code_tree", "is_valid_huffman_code_lengths", "calc_huffman_codes", "decode_symbol"], bounds="every assignment of lengths 0..=4 to 5 symbols")

H("k01f_deflate_chunk_framing", "preflate_container", ["C01", "C04", "C13"], unwind=8, timeout=1500, mem_gb=16,
  claim="a DeflateStream chunk written by write_chunk_block is framed so that read_chunk_block hands exactly the stored plaintext and corrections to the reconstruction; the writer reports compressed_size as the file bytes covered",
  functions=["preflate_container::write_chunk_block (DeflateStream arm)", "preflate_container::read_chunk_block (deflate arm)", "write_varint/read_varint"],
  bounds="plaintext 2 bytes, corrections 3 bytes (symbolic), compressed_size 1..999", assumptions=["recompress_deflate_stream replaced by an echo stand-in that returns its arguments"])
H("k01g_idat_chunk_framing", "preflate_container", ["C01", "C04"], tier="experimental", unwind=8, unwindset={"update_cheap": 12, "recreate_idat": 4, "read_from_bytestream": 4, "write_to_bytestream": 4}, timeout=1800, mem_gb=20,
  claim="a PNG chunk: IDAT descriptor, plaintext and corrections survive write_chunk_block -> read_chunk_block and the real recreate_idat re-chunks the reconstruction's result with the stored zlib header and Adler-32",
  functions=["write_chunk_block (IDAT arm)", "read_chunk_block (PNG arm)", "IdatContents::write_to_bytestream/read_from_bytestream", "idat_parse::recreate_idat"],
  bounds="two IDAT chunks (7 + 4), plaintext 1 byte, corrections 2 bytes (symbolic)", assumptions=["recompress_deflate_stream replaced by an echo stand-in", "checksum replaced by a cheap byte mixer"])

SCANC_ASSUME = ["next_signature replaced by its contract (None, or Some(kind) with the cursor moved forward to a position <= len-2), discharged by k01n_next_signature_contract / k06d", "decompress_deflate_stream, skip_gzip_header, parse_zip_stream, parse_idat replaced by contract stubs (Err, or Ok with any consumed length the real function can report), discharged by k07a/k03e, k01_gzip_hdr_16, k01_zip_hdr_34, k01e_idat_*"]
for k, to, mem in ((1, 1200, 16), (2, 2400, 24), (3, 3600, 40)):
    H("k01s_scan_cursor_%d" % k, "scan_deflate", ["C01", "C05", "C06"], tier=("quick" if k <= 2 else "thorough"), unwind=k + 3, unwindset={"scan_cursor": 2 * k + 3}, timeout=to, mem_gb=mem, kani_args=["-Z", "unstable-options", "--no-memory-safety-checks"],
      claim="split_into_deflate_streams never panics (no index out of range, no arithmetic overflow / wrap-around) and its chunk list tiles the file exactly, and every PNG chunk it emits satisfies recreate_idat's size equation, for every cursor position and every outcome of the callees",
      functions=["scan_deflate::split_into_deflate_streams"], bounds="file length 0..=1100 (symbolic); at most %d signature hit(s), each of symbolic kind at a symbolic offset; symbolic consumed lengths / header sizes / IDAT chunk size; each hit accepted or rejected" % k,
      outside="more than %d hits per file; IDAT runs of more than one chunk" % k, assumptions=SCANC_ASSUME + ["CBMC's pointer-validity checks off for this harness (safe Rust: index and overflow checks are explicit panics and stay checked)", "Vec::push replaced by an equivalent that asserts the capacity suffices (result Vec pre-sized) and case-splits on the length so that elements are written at concrete offsets"])
H("k01s_scan_step", "scan_deflate", ["C01", "C05", "C06"], tier="quick", unwind=5, unwindset={"scan_cursor": 7}, timeout=2400, mem_gb=24, kani_args=["-Z", "unstable-options", "--no-memory-safety-checks"],
  claim="one iteration of the scanner loop from an arbitrary reachable cursor state (prev_index == P for any 3 <= P <= n, chunks so far tiling [0, P), cursor anywhere at or after P) never panics, never wraps, keeps the chunk list tiling the file, and emits only reconstructible PNG chunks; with k01s_scan_cursor_1 (state prev_index == 0) this is an inductive argument for files with any number of signature hits",
  functions=["scan_deflate::split_into_deflate_streams"], bounds="file length 0..=1100 (symbolic); the state is produced by one accepted zlib stream at a symbolic position with a symbolic consumed length; the following hit has symbolic kind, position and outcome",
  outside="IDAT runs of more than one chunk; the induction itself (prev_index == index after every accept, only index moves after a reject) is argued in DESIGN, not solver-checked", assumptions=SCANC_ASSUME + ["CBMC's pointer-validity checks off for this harness (safe Rust: index and overflow checks are explicit panics and stay checked)", "Vec::push replaced by an equivalent that asserts the capacity suffices (result Vec pre-sized) and case-splits on the length so that elements are written at concrete offsets"])
H("k01n_next_signature_contract", "scan_deflate", ["C01", "C05", "C06"], tier="quick", unwind=7, timeout=900,
  claim="next_signature: None leaves the cursor untouched; Some moves it forward to a position <= len-2 holding a signature; no signature between the old and new cursor is skipped",
  functions=["scan_deflate::next_signature"], bounds="every slice of <= 5 bytes, every start cursor 0..=6 (incl. past the end)", outside="longer slices (the loop body is position-independent)")
H("k01h_idat_arm_reconstructible", "scan_deflate", ["C01"], tier="experimental", unwind=5, unwindset={"next_signature": 1062, "k01h": 6}, timeout=1800, mem_gb=20,
  claim="every PNG chunk the scanner emits satisfies recreate_idat's precondition: sum(chunk sizes) == compressed_size + 6, for every consumed length the analysis may report",
  functions=["scan_deflate::split_into_deflate_streams (IDAT arm)", "scan_deflate::next_signature"],
  bounds="1060-byte file with one IDAT look-alike at offset 4; parse_idat stand-in with concrete sizes (one 1040-byte chunk); analysis reports any consumed length 1..=1034 (symbolic)",
  assumptions=["parse_idat replaced by a concrete-size stand-in; decompress_deflate_stream replaced by a stand-in that accepts with a symbolic compressed_size"])


def version_gate(dst, verif):
    """read the two format version constants from current and reference source"""
    def grab(root):
        out = {}
        for f, c in (("src/preflate_container.rs", "COMPRESSED_WRAPPER_VERSION_1"),
                     ("src/preflate_parameter_estimator.rs", "FILE_VERSION")):
            p = os.path.join(root, f)
            m = re.search(r"const\s+%s\s*:\s*\w+\s*=\s*([^;]+);" % c, open(p).read()) if os.path.exists(p) else None
            out[c] = m.group(1).strip() if m else None
        return out
    cur = grab(dst)
    ref = grab(os.path.join(verif, "reference", "preflate_ref"))
    return {"current": cur, "reference": ref, "announced_change": cur != ref and None not in cur.values() and None not in ref.values()}

# ---------------------------------------------------------------------------
# per-property manifest text
# ---------------------------------------------------------------------------
_T = "bounded symbolic execution of the real code (Kani 0.68 / CBMC 6.11 / CaDiCaL)"
PROPS = {
    "C01": dict(design_ref="§2 C01", technique=_T + ": the real scanner loop over contract stubs of its callees (cursor arithmetic, tiling, inductive step), the contracts themselves (next_signature, header parsers, parse_idat on concrete chunk layouts), varint / chunk-framing / IDAT-descriptor round trips",
                level_text="Every lemma the container round trip decomposes into is decided by the SAT solver for all inputs inside the stated byte bounds; composition across lemmas is by argument (DESIGN §C01).",
                level_note="Bounds per harness in evidence. Outside: the composition of the lemmas (argued in DESIGN), IDAT runs of more than one chunk inside the scanner harness, IDAT parse->recreate identity with the real CRC (experimental). Trusted: Kani/CBMC, contract stubs (each discharged by a named harness), crc32fast shim / cheap checksum flag."),
    "C02": dict(design_ref="§2 C02", technique=_T + ": mirror-pair lemmas (parameter header over estimator_range, run-length tree mirror, hops inverse and matcher totality over a model chain, the real predict_block/recreate_block as an inductive step over a contract matcher at the HashChainHolder trait seam, the real encode_mispredictions/decode_mispredictions block loops over contracts of the per-block mirrors, stored-block mirror, writer token coding vs an RFC reference decoder)",
                level_text="Each encoder/decoder mirror pair is decided for all inputs inside its bound with the arithmetic coder replaced by a transparent recording codec.",
                level_note="Model hash chain at the HashChain trait seam and a contract object at the HashChainHolder trait seam (real hash tables are out of reach); each contract is discharged by a named harness. Outside: blocks of more than 2 tokens and streams of more than 3 blocks other than through the inductive steps (induction argued, not solver-checked), dynamic-block Huffman prediction beyond the run-length mirror (count / code-length-code part: experimental), table-based estimators."),
    "C03": dict(design_ref="§2 C03", technique=_T + ": differential harness against an RFC 1951 reference decoder written in the harness",
                level_text="Tables, fixed code, stored blocks, window copy, the top length/distance codes of the real reader and the code lengths a dynamic block's codes are built from equal an independent RFC-1951 reading typed into the harness.",
                level_note="Oracle is the in-harness RFC 1951 reference (not zlib itself, which is C). Outside: dynamic block data through the reader; window distances between 65 and 32765; in the quick tier only the top length/distance codes of the reader (all codes in the thorough tier)."),
    "C04": dict(design_ref="§2 C04", technique=_T + ": bounded equivalence of format-defining kernels, current tree vs frozen reference crate",
                level_text="For each format-defining kernel the solver shows current(x) == reference(x) for all x in the bound; an announced version bump passes.",
                level_note="Kernel list in evidence (incl. the predict_block correction sequence over a contract matcher, and single queries of the real match search / hop counting over identical candidate lists near and at the window limit); code outside the list (Huffman length calculation with two or more used symbols, table-level chain code, estimators) is not covered."),
    "C05": dict(design_ref="§2 C05", technique=_T + ": Kani panic/overflow/bounds/unwinding checks on scanner loop, parsers, tree predictor, matcher, container, chain position arithmetic",
                level_text="No panic, overflow, out-of-bounds or unbounded loop for any input inside the bounds, for the harnessed functions.",
                level_note="Estimators and the real hash-table walk are outside; dev-profile semantics."),
    "C06": dict(design_ref="§2 C06", technique=_T + ": stand-alone lemmas for the failure modes: signature table and signature search, exact gzip header length (RFC 1952), zip data offset, IDAT acceptance, and the real scanner loop over those contracts",
                level_text="next_signature reports exactly the documented signatures and skips none; skip_gzip_header leaves the cursor at the RFC 1952 header length for every flag subset; parse_zip_stream computes 30 + name + extra for method 8 and hands the analysis everything behind the header when the local header carries no size; parse_idat accepts every run with correct checksums; the scanner loop emits an accepted stream at exactly the offset its parser reported and probes every offset outside accepted streams.",
                level_note="The scanner loop runs over contract stubs (k01s_*), not over real header bytes: the end-to-end form with an offset oracle (k06a/b/c) is experimental and does not finish. Inputs <= 16 (gzip) / 34 (zip) bytes for the header lemmas; acceptance of S by the real analysis is C02's subject."),
    "C07": dict(design_ref="§2 C07", technique=_T + ": stored-block parse -> re-serialise identity; writer token coding vs an RFC 1951 reference decoder (fixed and arbitrary codes); reader on concrete-layout fixed tokens with symbolic extra bits",
                level_text="Stored blocks: reader then writer reproduces the consumed bytes. Tokens: the writer emits exactly the RFC coding for every literal and (length, distance) incl. 284+31 under the fixed code and under arbitrary code lengths/values; the reader decodes the top length/distance codes with every extra-bit value.",
                level_note="Fixed tables precomputed natively from the same source (equality under Kani in thorough). Outside: dynamic header write -> read identity (thorough: k07c; quick has the read postcondition k07e_* and the length expansion k03h), dynamic block data, multi-token reader runs (thorough), lower length/distance codes on the reader side (thorough)."),
    "C08": dict(design_ref="§2 C08", technique=_T + ": C02 mirror lemmas with the parameter vector symbolic over estimator_range",
                level_text="The mirror lemmas hold for every parameter vector in estimator_range, so reconstruction cannot depend on which one the estimator picked.",
                level_note="estimator_range predicate is hand-written from recommend() and the config tables and printed in evidence."),
    "C10": dict(design_ref="§2 C10", technique=_T + ": exp-coding pair and op protocol over a tagged transparent channel",
                level_text="Encode/decode of every single operation (all v < 2^31, widths 1..16, every context) and of all k-operation sequences with concrete kinds round-trips and uses identical context slots.",
                level_note="The VP8 arithmetic coder is replaced by a tagged transparent channel; sequences longer than k outside."),
    "C11": dict(design_ref="§2 C11", technique=_T + ": compress_zstd/decompress_zstd over a zstd framing model",
                level_text="Capacity pass-through, error propagation and round trip of the two wrapper functions for all small inputs and capacities.",
                level_note="zstd itself is modelled (FFI): the claim is conditional on zstd meeting the model's contract."),
    "C12": dict(design_ref="§2 C12", technique=_T + ": C ABI wrappers with harness-owned guarded buffers over the zstd model",
                level_text="Status, result_size and buffer bounds of both wrappers for all small inputs and capacities.",
                level_note="catch_unwind is stubbed to call the closure (no unwinding semantics in Kani); 128 MiB bound and 'never unwinds' are not decided."),
    "C13": dict(design_ref="§2 C13", technique=_T + ": recreated_zlib_chunks / recreate_idat under concrete fragmentation patterns (1-byte, 2-byte, bulk) and a hard fault at every source/destination offset, symbolic content",
                level_text="For the listed fragmentation patterns and a fault at every offset of the container: same output, or Err with a prefix written, never a panic.",
                level_note="Literal-chunk containers (3-4 byte files) and recreate_idat; solver-chosen per-call fragmentation and ErrorKind::Interrupted retries are outside (symbolic execution explodes)."),
}
NOT_APPLICABLE = {
    "C09": "statistical aggregate over outputs of four real compressors relative to a second build: no bounded symbolic assertion expresses it and the compressors/estimators cannot be encoded (DESIGN §C09)",
    "C14": "quantifies over thread schedules; Kani/CBMC do not model Rust threads here and a hand MIR->SMT interleaving encoding of this library is out of reach (DESIGN §C14)",
}
