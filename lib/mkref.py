#!/usr/bin/env python3
"""Freeze the reference build for C04: /repo at the given commit (default HEAD) -> /verif/reference/preflate_ref.
Reference = pinned release + recorded `fix:` commits.  Run after every fix commit; commit the result in /verif."""
import os, re, subprocess, sys, shutil, tarfile, io
VERIF = os.path.dirname(os.path.dirname(os.path.abspath(__file__)))
commit = sys.argv[1] if len(sys.argv) > 1 else "HEAD"
sha = subprocess.check_output(["git", "-C", "/repo", "rev-parse", commit], text=True).strip()
dst = os.path.join(VERIF, "reference", "preflate_ref")
shutil.rmtree(dst, ignore_errors=True)
os.makedirs(dst)
tar = subprocess.check_output(["git", "-C", "/repo", "archive", sha, "src", "Cargo.toml"])
tarfile.open(fileobj=io.BytesIO(tar)).extractall(dst)
os.remove(os.path.join(dst, "src", "main.rs"))
ct = open(os.path.join(dst, "Cargo.toml")).read()
ct = ct.replace('name = "preflate-rs"', 'name = "preflate_ref"')
ct = re.sub(r"\[dev-dependencies\].*?(?=\n\[)", "", ct, flags=re.S)
ct = re.sub(r"\[lib\]\ncrate-type = \[[^\]]*\]\n", "", ct)
ct = re.sub(r"\[\[bin\]\].*?(?=\n\[|\Z)", "", ct, flags=re.S)
ct = re.sub(r"\[profile\.release\]\ndebug=true\n", "", ct)
open(os.path.join(dst, "Cargo.toml"), "w").write(ct + "\n[lib]\nname = \"preflate_ref\"\npath = \"src/lib.rs\"\n")
lib = open(os.path.join(dst, "src", "lib.rs")).read()
lib = re.sub(r"^mod ", "pub mod ", lib, flags=re.M)
i = lib.index("use std::{io::Cursor, panic::catch_unwind};")
lib = lib[:i] + "// C ABI wrappers and tests removed from the frozen reference copy (symbol clash when linked with the current build)\n"
lib += '\n#[path = "../../export/common.rs"]\npub mod verif_export_common;\n'
open(os.path.join(dst, "src", "lib.rs"), "w").write("#![allow(warnings)]\n" + lib)
for f in sorted(os.listdir(os.path.join(VERIF, "reference", "export"))):
    if f == "common.rs":
        continue
    sp = os.path.join(dst, "src", f)
    with open(sp, "a") as fh:
        fh.write('\n#[path = "../../export/%s"]\npub mod verif_export;\n' % f)
open(os.path.join(dst, "REFERENCE_COMMIT"), "w").write(sha + "\n")
print("reference frozen at", sha)
