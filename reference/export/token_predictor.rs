#![allow(dead_code, unused_imports)]
use super::*;
use crate::hash_chain_holder::verif_export::{x_holder, XChain};
use crate::verif_export_common::Ops;
/// the correction sequence predict_block emits for a block of <= 3 tokens under given parameters and candidate lists
pub fn predict_ops(text: &[u8], pf: &[u32; 19], dist: &[[[u32; 3]; 2]; 13], cnt: &[[u8; 2]; 13], dynamic: bool,
                   is_ref: &[bool; 3], lit: &[u8; 3], len: &[u32; 3], dst: &[u32; 3], n: usize, last: bool) -> Ops {
    let params = crate::preflate_parameter_estimator::verif_export::from_flat(pf).predictor;
    let mut blk = PreflateTokenBlock::new(if dynamic { BlockType::DynamicHuff } else { BlockType::StaticHuff });
    let mut i = 0;
    while i < 3 {
        if i < n {
            if is_ref[i] { blk.tokens.push(PreflateToken::new_reference(len[i], dst[i], false)); } else { blk.tokens.push(PreflateToken::Literal(lit[i])); }
        }
        i += 1;
    }
    let mut tp = TokenPredictor {
        state: x_holder(&params, XChain { dist: *dist, cnt: *cnt }),
        params,
        pending_reference: None,
        current_token_count: 0,
        max_token_count: params.max_token_count.into(),
        input: PreflateInput::new(text),
    };
    let mut ops = Ops::new();
    let r = tp.predict_block(&blk, &mut ops, last);
    if r.is_err() { ops.n = 999; }
    core::mem::forget(r);
    core::mem::forget(tp);
    core::mem::forget(blk);
    ops
}

/// Matcher stand-in for cross-build equivalence of predict_block (C04): at the `Box<dyn HashChainHolder>` seam, every
/// answer is a pure function of the query and of tables handed in by the harness (identical for the two builds).
pub struct XContract { pub ans: [[u32; 3]; 4], pub hops: [u32; 4], pub nupd: u32 }
impl XContract {
    fn q(&self, offset: u32, prev_len: u32, max_depth: u32, input: &PreflateInput) -> MatchResult {
        let i = (offset.wrapping_add(input.pos().wrapping_mul(2)).wrapping_add(self.nupd).wrapping_add(prev_len).wrapping_add(max_depth) % 4) as usize;
        let a = self.ans[i];
        let p = input.pos() + offset;
        let rem = if input.size() > p { input.size() - p } else { 0 };
        match a[0] {
            0 => if rem >= 3 && p >= 1 && a[1] >= 3 && a[1] <= 258 && a[1] <= rem && a[2] >= 1 && a[2] <= p { MatchResult::Success(PreflateTokenReference::new(a[1], a[2], false)) } else { MatchResult::NoMoreMatchesFound },
            1 => MatchResult::DistanceLargerThanHop0(a[1], a[2]),
            2 => MatchResult::NoInput,
            3 => MatchResult::NoMoreMatchesFound,
            _ => MatchResult::MaxChainExceeded(a[1]),
        }
    }
}
impl HashChainHolder for XContract {
    fn update_hash(&mut self, length: u32, _input: &PreflateInput) { self.nupd = self.nupd.wrapping_add(length); }
    fn match_token_0(&self, prev_len: u32, max_depth: u32, input: &PreflateInput) -> MatchResult { self.q(0, prev_len, max_depth, input) }
    fn match_token_1(&self, prev_len: u32, max_depth: u32, input: &PreflateInput) -> MatchResult { self.q(1, prev_len, max_depth, input) }
    fn calculate_hops(&self, target: &PreflateTokenReference, input: &PreflateInput) -> Result<u32> {
        let h = self.hops[(target.dist().wrapping_add(target.len()).wrapping_add(input.pos()) % 4) as usize];
        if h == 0 { err_exit_code(ExitCode::MatchNotFound, "") } else { Ok(h) }
    }
    fn hop_match(&self, _len: u32, _hops: u32, _input: &PreflateInput) -> Result<u32> { err_exit_code(ExitCode::MatchNotFound, "") }
    fn verify_hash(&self, _dist: Option<PreflateTokenReference>) {}
    fn checksum(&self, _checksum: &mut crate::bit_helper::DebugHash) {}
}
/// the correction sequence predict_block emits for a block of exactly N tokens starting at cursor p0, matcher = XContract
pub fn predict_ops_contract<const N: usize>(text: &[u8], pf: &[u32; 19], ans: &[[u32; 3]; 4], hops: &[u32; 4], dynamic: bool,
                            is_ref: &[bool; N], lit: &[u8; N], len: &[u32; N], dst: &[u32; N], irr: &[bool; N], last: bool, p0: u32) -> Ops {
    let params = crate::preflate_parameter_estimator::verif_export::from_flat(pf).predictor;
    let mut blk = PreflateTokenBlock::new(if dynamic { BlockType::DynamicHuff } else { BlockType::StaticHuff });
    let mut i = 0;
    while i < N {
        if is_ref[i] { blk.tokens.push(PreflateToken::new_reference(len[i], dst[i], irr[i])); } else { blk.tokens.push(PreflateToken::Literal(lit[i])); }
        i += 1;
    }
    let mut tp = TokenPredictor {
        state: Box::new(XContract { ans: *ans, hops: *hops, nupd: 0 }),
        params,
        pending_reference: None,
        current_token_count: 0,
        max_token_count: params.max_token_count.into(),
        input: PreflateInput::new(text),
    };
    tp.input.advance(p0);
    let mut ops = Ops::new();
    let r = tp.predict_block(&blk, &mut ops, last);
    if r.is_err() { ops.n = 999; }
    core::mem::forget(r);
    core::mem::forget(tp);
    core::mem::forget(blk);
    ops
}
