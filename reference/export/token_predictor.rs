#![allow(dead_code, unused_imports)]
use super::*;
use crate::hash_chain_holder::verif_export::{x_holder, XChain};
use crate::verif_export_common::Ops;
/// the correction sequence predict_block emits for a block of <= 3 tokens under given parameters and candidate lists
pub fn predict_ops(text: &[u8], pf: &[u32; 19], dist: &[[[u32; 3]; 2]; 13], cnt: &[[u8; 2]; 13], dynamic: bool,
                   is_ref: &[bool; 3], lit: &[u8; 3], len: &[u32; 3], dst: &[u32; 3], n: usize, last: bool) -> Ops {
    let params = crate::preflate_parameter_estimator::verif_export::from_flat(pf).predictor;
    let mut blk = PreflateTokenBlock::new(if dynamic { BlockType::DynamicHuff } else { BlockType::StaticHuff });
    let mut i = 0;
    while i < 3 {
        if i < n {
            if is_ref[i] { blk.tokens.push(PreflateToken::new_reference(len[i], dst[i], false)); } else { blk.tokens.push(PreflateToken::Literal(lit[i])); }
        }
        i += 1;
    }
    let mut tp = TokenPredictor {
        state: x_holder(&params, XChain { dist: *dist, cnt: *cnt }),
        params,
        pending_reference: None,
        current_token_count: 0,
        max_token_count: params.max_token_count.into(),
        input: PreflateInput::new(text),
    };
    let mut ops = Ops::new();
    let r = tp.predict_block(&blk, &mut ops, last);
    if r.is_err() { ops.n = 999; }
    core::mem::forget(r);
    core::mem::forget(tp);
    core::mem::forget(blk);
    ops
}
