#![allow(dead_code, unused_imports)]
use super::*;
pub fn hash_of(alg: u8, mask: u16, shift: u32, b: &[u8; 4]) -> u16 {
    match alg {
        1 => ZlibRotatingHash { hash_mask: mask, hash_shift: shift }.get_hash(b),
        2 => MiniZHash {}.get_hash(b),
        3 => LibdeflateHash4 {}.get_hash(b),
        4 => LibdeflateHash4Fast {}.get_hash(b),
        5 => ZlibNGHash {}.get_hash(b),
        6 => RandomVectorHash {}.get_hash(b),
        7 => Crc32cHash {}.get_hash(b),
        _ => LibdeflateHash3Secondary {}.get_hash(b),
    }
}
pub fn hash_bytes(alg: u8) -> usize {
    match alg {
        1 => ZlibRotatingHash::num_hash_bytes(), 2 => MiniZHash::num_hash_bytes(), 3 => LibdeflateHash4::num_hash_bytes(),
        4 => LibdeflateHash4Fast::num_hash_bytes(), 5 => ZlibNGHash::num_hash_bytes(), 6 => RandomVectorHash::num_hash_bytes(),
        7 => Crc32cHash::num_hash_bytes(), _ => LibdeflateHash3Secondary::num_hash_bytes(),
    }
}
