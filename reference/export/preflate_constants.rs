#![allow(dead_code, unused_imports)]
use super::*;
pub fn q_len(len: u32) -> usize { quantize_length(len) }
pub fn q_dist(d: u32) -> usize { quantize_distance(d) }
pub fn len_tab(i: usize) -> (u8, u8) { (LENGTH_BASE_TABLE[i], LENGTH_EXTRA_TABLE[i]) }
pub fn dist_tab(i: usize) -> (u16, u8) { (DIST_BASE_TABLE[i], DIST_EXTRA_TABLE[i]) }
pub fn tree_order(i: usize) -> usize { TREE_CODE_ORDER_TABLE[i] }
pub fn misc() -> [u32; 4] { [MIN_MATCH, MAX_MATCH, MIN_LOOKAHEAD, CODETREE_CODE_COUNT as u32] }
