#![allow(dead_code, unused_imports)]
use super::*;
pub fn zlib_lengths(freq: &[u16], limit: usize) -> ([u8; 8], usize) {
    let v = calc_bit_lengths(HufftreeBitCalc::Zlib, freq, limit);
    let mut o = [0u8; 8];
    let mut i = 0;
    while i < 8 { if i < v.len() { o[i] = v[i]; } i += 1; }
    let n = v.len();
    core::mem::forget(v);
    (o, n)
}
