#![allow(dead_code, unused_imports)]
use super::*;
use crate::verif_export_common::Ops;
use crate::preflate_token::{BlockType, PreflateTokenBlock};

pub fn enum_discriminants() -> [u32; 10] {
    [
        PreflateStrategy::Default as u32, PreflateStrategy::RleOnly as u32, PreflateStrategy::HuffOnly as u32, PreflateStrategy::Store as u32,
        PreflateHuffStrategy::Dynamic as u32, PreflateHuffStrategy::Mixed as u32, PreflateHuffStrategy::Static as u32,
        BlockType::DynamicHuff as u32, BlockType::Stored as u32, BlockType::StaticHuff as u32,
    ]
}

/// flat parameter vector -> PreflateParameters of *this* crate
/// f = [huff, strategy, window_bits, nice, policy_kind, policy_limit, max_token_count, zlib_compat, max_dist3,
///      lazy, good_length, max_lazy, max_chain, min_len, hash_kind, hash_mask, hash_shift, very_far, to_start]
pub fn from_flat(f: &[u32; 19]) -> PreflateParameters {
    PreflateParameters {
        huff_strategy: match f[0] { 0 => PreflateHuffStrategy::Dynamic, 1 => PreflateHuffStrategy::Mixed, _ => PreflateHuffStrategy::Static },
        predictor: TokenPredictorParameters {
            strategy: match f[1] { 0 => PreflateStrategy::Default, 1 => PreflateStrategy::RleOnly, 2 => PreflateStrategy::HuffOnly, _ => PreflateStrategy::Store },
            window_bits: f[2],
            nice_length: f[3],
            add_policy: match f[4] {
                0 => DictionaryAddPolicy::AddAll, 1 => DictionaryAddPolicy::AddFirst(f[5] as u16), 2 => DictionaryAddPolicy::AddFirstAndLast(f[5] as u16),
                3 => DictionaryAddPolicy::AddFirstExcept4kBoundary, _ => DictionaryAddPolicy::AddFirstWith32KBoundary,
            },
            max_token_count: f[6] as u16,
            zlib_compatible: f[7] != 0,
            max_dist_3_matches: f[8] as u16,
            matching_type: if f[9] != 0 { MatchingType::Lazy { good_length: f[10] as u16, max_lazy: f[11] as u16 } } else { MatchingType::Greedy },
            max_chain: f[12],
            min_len: f[13],
            hash_algorithm: match f[14] {
                0 => HashAlgorithm::None, 1 => HashAlgorithm::Zlib { hash_mask: f[15] as u16, hash_shift: f[16] }, 2 => HashAlgorithm::MiniZFast,
                3 => HashAlgorithm::Libdeflate4, 4 => HashAlgorithm::Libdeflate4Fast, 5 => HashAlgorithm::ZlibNG, 6 => HashAlgorithm::RandomVector,
                _ => HashAlgorithm::Crc32cHash,
            },
            very_far_matches_detected: f[17] != 0,
            matches_to_start_detected: f[18] != 0,
        },
    }
}

/// the (kind, width/context, value) sequence PreflateParameters::write emits: field order and widths
pub fn write_ops(f: &[u32; 19]) -> Ops {
    let mut o = Ops::new();
    from_flat(f).write(&mut o);
    o
}

/// parameter vector estimated for a stream without dictionary use (one stored block / one literal-only block)
pub fn nodict_ops(stored: bool) -> Ops {
    let mut b = PreflateTokenBlock::new(if stored { BlockType::Stored } else { BlockType::StaticHuff });
    if stored { b.uncompressed.push(65); } else { b.add_literal(65); }
    let blocks = vec![b];
    let p = estimate_preflate_parameters(&[65u8], &blocks).unwrap();
    let mut o = Ops::new();
    p.write(&mut o);
    o
}
