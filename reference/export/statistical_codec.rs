#![allow(dead_code, unused_imports)]
use super::*;
/// Sizes of the two context enums.  NOTE: the *numbering* of CodecCorrection / CodecMisprediction is not
/// part of the format: all adaptive slots start in the same state and each context always uses its own
/// slot, so a permutation is invisible in the coded bytes (confirmed by a seeded change).  Only the
/// partition of operations into slots matters; k04h compares that up to renaming.
pub fn context_counts() -> [u32; 2] {
    [CodecMisprediction::MAX as u32, CodecCorrection::MAX as u32]
}
