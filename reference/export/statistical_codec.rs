#![allow(dead_code, unused_imports)]
use super::*;
/// discriminants by *name*: contexts are indexed by `as usize`, so their numbering is part of the format
pub fn discriminants() -> [u32; 19] {
    [
        CodecMisprediction::EOFMisprediction as u32, CodecMisprediction::LiteralPredictionWrong as u32,
        CodecMisprediction::ReferencePredictionWrong as u32, CodecMisprediction::IrregularLen258 as u32,
        CodecMisprediction::TreeCodeCountMisprediction as u32, CodecMisprediction::LiteralCountMisprediction as u32,
        CodecMisprediction::DistanceCountMisprediction as u32, CodecMisprediction::MAX as u32,
        CodecCorrection::TokenCount as u32, CodecCorrection::NonZeroPadding as u32, CodecCorrection::BlockTypeCorrection as u32,
        CodecCorrection::LenCorrection as u32, CodecCorrection::DistOnlyCorrection as u32, CodecCorrection::DistAfterLenCorrection as u32,
        CodecCorrection::TreeCodeBitLengthCorrection as u32, CodecCorrection::LDTypeCorrection as u32,
        CodecCorrection::RepeatCountCorrection as u32, CodecCorrection::LDBitLengthCorrection as u32, CodecCorrection::MAX as u32,
    ]
}
