//! Injected into BOTH the frozen reference crate and the scratch copy of the current tree
//! (as `crate::verif_export_common`).  Plain-typed recording codec so that op sequences
//! can be compared across the two crates.
#![allow(dead_code, unused_imports)]
use crate::statistical_codec::{CodecCorrection, CodecMisprediction, PredictionDecoder, PredictionEncoder};

pub const XN: usize = 40;
#[derive(Clone, Copy)]
pub struct Ops {
    pub kind: [u8; XN],
    pub ctx: [u8; XN],
    pub val: [u32; XN],
    pub n: usize,
}
impl Ops {
    pub fn new() -> Self { Ops { kind: [0; XN], ctx: [0; XN], val: [0; XN], n: 0 } }
    fn push(&mut self, k: u8, c: u8, v: u32) {
        assert!(self.n < XN);
        self.kind[self.n] = k; self.ctx[self.n] = c; self.val[self.n] = v; self.n += 1;
    }
    pub fn same(&self, o: &Ops) -> bool {
        if self.n != o.n { return false; }
        let mut i = 0;
        while i < XN {
            if i < self.n && (self.kind[i] != o.kind[i] || self.ctx[i] != o.ctx[i] || self.val[i] != o.val[i]) { return false; }
            i += 1;
        }
        true
    }
}
impl PredictionEncoder for Ops {
    fn encode_correction(&mut self, action: CodecCorrection, value: u32) { self.push(2, action as u8, value); }
    fn encode_misprediction(&mut self, action: CodecMisprediction, value: bool) { self.push(3, action as u8, value as u32); }
    fn encode_value(&mut self, value: u16, max_bits: u8) { self.push(1, max_bits, value as u32); }
    fn encode_verify_state(&mut self, _m: &'static str, _c: u64) {}
    fn finish(&mut self) {}
}
