#![allow(dead_code, unused_imports)]
use super::*;
/// the sequence of (offset into input, pos, len) update calls a policy makes
pub fn policy_calls(kind: u8, limit: u16, input: &[u8], pos: u32, length: u32) -> ([(usize, u32, u32); 3], usize) {
    let p = match kind {
        0 => DictionaryAddPolicy::AddAll, 1 => DictionaryAddPolicy::AddFirst(limit), 2 => DictionaryAddPolicy::AddFirstAndLast(limit),
        3 => DictionaryAddPolicy::AddFirstExcept4kBoundary, _ => DictionaryAddPolicy::AddFirstWith32KBoundary,
    };
    let mut out = [(0usize, 0u32, 0u32); 3];
    let mut n = 0usize;
    let total = input.len();
    p.update_hash(input, pos, length, |s: &[u8], q: u32, l: u32| {
        if n < 3 { out[n] = (total - s.len(), q, l); }
        n += 1;
    });
    (out, n)
}
pub fn at_32k(length: u32, pos: u32) -> bool { is_at_32k_boundary(length, pos) }
