#![allow(dead_code, unused_imports)]
use super::*;
pub fn format_constants() -> [u8; 4] { [COMPRESSED_WRAPPER_VERSION_1, LITERAL_CHUNK, DEFLATE_STREAM, PNG_COMPRESSED] }
pub fn varint_bytes(v: u32) -> ([u8; 6], usize) {
    let mut b: Vec<u8> = Vec::new();
    write_varint(&mut b, v).unwrap();
    let mut o = [0u8; 6];
    let mut i = 0;
    while i < 6 { if i < b.len() { o[i] = b[i]; } i += 1; }
    let n = b.len();
    core::mem::forget(b);
    (o, n)
}
pub fn literal_chunk_bytes(data: &[u8]) -> ([u8; 8], usize) {
    let mut b: Vec<u8> = Vec::new();
    write_chunk_block(BlockChunk::Literal(data.len()), data, &mut b).unwrap();
    let mut o = [0u8; 8];
    let mut i = 0;
    while i < 8 { if i < b.len() { o[i] = b[i]; } i += 1; }
    let n = b.len();
    core::mem::forget(b);
    (o, n)
}
