#![allow(dead_code, unused_imports)]
use super::*;
/// model chain for cross-build equivalence of the matcher / token predictor: identical candidate lists are
/// handed to the current and to the reference build
#[derive(Clone, Copy)]
pub struct XChain {
    pub dist: [[[u32; 3]; 2]; 13],
    pub cnt: [[u8; 2]; 13],
}
impl HashChain for XChain {
    fn iterate<'a>(&'a self, input: &PreflateInput, offset: u32) -> impl Iterator<Item = u32> + 'a {
        let p = input.pos() as usize;
        let row = self.dist[p][offset as usize];
        let n = self.cnt[p][offset as usize] as usize;
        let mut i = 0;
        std::iter::from_fn(move || { if i < n { i += 1; Some(row[i - 1]) } else { None } })
    }
    fn update_hash(&mut self, _input: &[u8], _pos: u32, _length: u32) {}
    fn checksum(&self, _c: &mut DebugHash) {}
}
#[derive(Default, Copy, Clone)]
pub struct XHash3 {}
impl HashImplementation for XHash3 {
    type HashChainType = XChain;
    fn get_hash(&self, _b: &[u8]) -> u16 { 0 }
    fn num_hash_bytes() -> usize { 3 }
    fn new_hash_chain(self) -> XChain { unreachable!() }
    fn algorithm(&self) -> HashAlgorithm { HashAlgorithm::RandomVector }
}
pub fn x_holder(params: &TokenPredictorParameters, c: XChain) -> Box<dyn HashChainHolder> {
    Box::new(HashChainHolderImpl::<XHash3> { hash: c, params: *params, window_bytes: 1 << params.window_bits })
}
