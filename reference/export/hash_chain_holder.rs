#![allow(dead_code, unused_imports)]
use super::*;
/// model chain for cross-build equivalence of the matcher / token predictor: identical candidate lists are
/// handed to the current and to the reference build
#[derive(Clone, Copy)]
pub struct XChain {
    pub dist: [[[u32; 3]; 2]; 13],
    pub cnt: [[u8; 2]; 13],
}
impl HashChain for XChain {
    fn iterate<'a>(&'a self, input: &PreflateInput, offset: u32) -> impl Iterator<Item = u32> + 'a {
        let p = input.pos() as usize;
        let row = self.dist[p][offset as usize];
        let n = self.cnt[p][offset as usize] as usize;
        let mut i = 0;
        std::iter::from_fn(move || { if i < n { i += 1; Some(row[i - 1]) } else { None } })
    }
    fn update_hash(&mut self, _input: &[u8], _pos: u32, _length: u32) {}
    fn checksum(&self, _c: &mut DebugHash) {}
}
#[derive(Default, Copy, Clone)]
pub struct XHash3 {}
impl HashImplementation for XHash3 {
    type HashChainType = XChain;
    fn get_hash(&self, _b: &[u8]) -> u16 { 0 }
    fn num_hash_bytes() -> usize { 3 }
    fn new_hash_chain(self) -> XChain { unreachable!() }
    fn algorithm(&self) -> HashAlgorithm { HashAlgorithm::RandomVector }
}
pub fn x_holder(params: &TokenPredictorParameters, c: XChain) -> Box<dyn HashChainHolder> {
    Box::new(HashChainHolderImpl::<XHash3> { hash: c, params: *params, window_bytes: 1 << params.window_bits })
}

/// position-independent model chain for cross-build equivalence of ONE matcher query at an arbitrary cursor
#[derive(Clone, Copy)]
pub struct XChainFlat { pub dist: [[u32; 3]; 2], pub cnt: [u8; 2] }
impl HashChain for XChainFlat {
    fn iterate<'a>(&'a self, _input: &PreflateInput, offset: u32) -> impl Iterator<Item = u32> + 'a {
        let row = self.dist[offset as usize];
        let n = self.cnt[offset as usize] as usize;
        let mut i = 0;
        std::iter::from_fn(move || { if i < n { i += 1; Some(row[i - 1]) } else { None } })
    }
    fn update_hash(&mut self, _input: &[u8], _pos: u32, _length: u32) {}
    fn checksum(&self, _c: &mut DebugHash) {}
}
#[derive(Default, Copy, Clone)]
pub struct XHash3F {}
impl HashImplementation for XHash3F {
    type HashChainType = XChainFlat;
    fn get_hash(&self, _b: &[u8]) -> u16 { 0 }
    fn num_hash_bytes() -> usize { 3 }
    fn new_hash_chain(self) -> XChainFlat { unreachable!() }
    fn algorithm(&self) -> HashAlgorithm { HashAlgorithm::RandomVector }
}
fn flat_result(r: MatchResult) -> [u32; 3] {
    match r {
        MatchResult::Success(t) => [0, t.len(), t.dist()],
        MatchResult::DistanceLargerThanHop0(a, b) => [1, a, b],
        MatchResult::NoInput => [2, 0, 0],
        MatchResult::NoMoreMatchesFound => [3, 0, 0],
        MatchResult::MaxChainExceeded(a) => [4, a, 0],
    }
}
/// one query of the real match search / hop counting at cursor `pos` over the given candidate lists:
/// what = 0: match_token_offset::<0>, 1: match_token_offset::<1>, 2: calculate_hops(len = a, dist = b), 3: hop_match(len = a, hops = b)
pub fn matcher_query(text: &[u8], pos: u32, pf: &[u32; 19], dist: &[[u32; 3]; 2], cnt: &[u8; 2], what: u8, a: u32, b: u32) -> [u32; 3] {
    let params = crate::preflate_parameter_estimator::verif_export::from_flat(pf).predictor;
    let h = HashChainHolderImpl::<XHash3F> { hash: XChainFlat { dist: *dist, cnt: *cnt }, params, window_bytes: 1 << params.window_bits };
    let mut input = PreflateInput::new(text);
    input.advance(pos);
    match what {
        0 => flat_result(h.match_token_offset::<0>(a, b, &input)),
        1 => flat_result(h.match_token_offset::<1>(a, b, &input)),
        2 => { let r = h.calculate_hops(&PreflateTokenReference::new(a, b, false), &input); let o = match &r { Ok(v) => [0, *v, 0], Err(_) => [9, 0, 0] }; core::mem::forget(r); o }
        _ => { let r = h.hop_match(a, b, &input); let o = match &r { Ok(v) => [0, *v, 0], Err(_) => [9, 0, 0] }; core::mem::forget(r); o }
    }
}
