#![allow(dead_code, unused_imports)]
use super::*;
pub fn idat_desc_bytes(s0: u32, s1: u32, n: usize, hdr: [u8; 2], adler: u32) -> ([u8; 20], usize) {
    let mut sizes: Vec<u32> = Vec::new();
    if n >= 1 { sizes.push(s0); }
    if n >= 2 { sizes.push(s1); }
    let d = IdatContents { chunk_sizes: sizes, zlib_header: hdr, total_chunk_length: 0, addler32: adler };
    let mut b: Vec<u8> = Vec::new();
    d.write_to_bytestream(&mut b).unwrap();
    let mut o = [0u8; 20];
    let mut i = 0;
    while i < 20 { if i < b.len() { o[i] = b[i]; } i += 1; }
    let len = b.len();
    core::mem::forget(b); core::mem::forget(d);
    (o, len)
}
