#![allow(dead_code, unused_imports)]
use super::*;
use crate::verif_export_common::Ops;
pub fn tct_discriminants() -> [u32; 4] {
    [TreeCodeType::Code as u32, TreeCodeType::Repeat as u32, TreeCodeType::ZeroShort as u32, TreeCodeType::ZeroLong as u32]
}
fn tct(k: u8) -> TreeCodeType {
    match k { 0 => TreeCodeType::Code, 1 => TreeCodeType::Repeat, 2 => TreeCodeType::ZeroShort, _ => TreeCodeType::ZeroLong }
}
pub fn code_type(sym: &[u8], has_prev: bool, prev: u8) -> u32 {
    predict_code_type(sym, if has_prev { Some(prev) } else { None }) as u32
}
pub fn code_data(sym: &[u8], ty: u8) -> u8 { predict_code_data(sym, tct(ty)) }
pub fn tc_len(b: &[u8]) -> usize { calc_tc_lengths_without_trailing_zeros(b) }
/// correction ops emitted for a target RLE sequence (kinds 0..3, data) against predicted lengths
pub fn ld_ops(pred: &[u8], kinds: &[u8], data: &[u8], n: usize) -> Ops {
    let mut items: Vec<(TreeCodeType, u8)> = Vec::new();
    let mut i = 0;
    while i < kinds.len() { if i < n { items.push((tct(kinds[i]), data[i])); } i += 1; }
    let mut o = Ops::new();
    let r = predict_ld_trees(&mut o, pred, &items[..]);
    if r.is_err() { o.n = 999; }
    core::mem::forget(r);
    core::mem::forget(items);
    o
}
pub fn codetree_freq(kinds: &[u8], data: &[u8], n: usize) -> [u16; 19] {
    let mut items: Vec<(TreeCodeType, u8)> = Vec::new();
    let mut i = 0;
    while i < kinds.len() { if i < n { items.push((tct(kinds[i]), data[i])); } i += 1; }
    let r = calc_codetree_freq(&items);
    core::mem::forget(items);
    r
}
