#![allow(dead_code, unused_imports)]
use super::*;
use cabac::traits::{CabacReader, CabacWriter};
pub fn diff_enc(p: u32, a: u32) -> u32 { encode_difference(p, a) }
pub fn diff_dec(p: u32, e: u32) -> u32 { decode_difference(p, e) }

#[derive(Default, Clone, Copy)]
pub struct XCtx { pub id: u16 }
pub const XCH: usize = 48;
pub struct XChan { pub bit: [bool; XCH], pub tag: [u16; XCH], pub n: usize }
impl CabacWriter<XCtx> for XChan {
    fn put_bypass(&mut self, v: bool) -> std::io::Result<()> { assert!(self.n < XCH); self.bit[self.n] = v; self.tag[self.n] = 0xffff; self.n += 1; Ok(()) }
    fn put(&mut self, v: bool, c: &mut XCtx) -> std::io::Result<()> { assert!(self.n < XCH); self.bit[self.n] = v; self.tag[self.n] = c.id; self.n += 1; Ok(()) }
    fn finish(&mut self) -> std::io::Result<()> { Ok(()) }
}
fn tagged() -> PredictionCabacContext<XCtx> {
    let mut c = PredictionCabacContext::<XCtx>::default();
    let mut i = 0;
    while i < 16 { c.default_encoding[i].id = i as u16; c.default_encoding_nbits[i].id = 16 + i as u16; i += 1; }
    let mut k = 0;
    while k < c.correction.len() {
        let mut i = 0;
        while i < 8 { c.correction[k][i].id = (32 + k * 8 + i) as u16; c.correction_bits[k][i].id = (32 + 80 + k * 8 + i) as u16; i += 1; }
        k += 1;
    }
    c
}
/// (bit, context-slot) symbols put on the arithmetic coder for two operations + finish.
/// kinds: 0 value(a: value, b: width) 1 misprediction(a: flag) 2 correction(a: value) in LenCorrection
pub fn op_symbols(k0: u8, a0: u32, b0: u8, k1: u8, a1: u32, b1: u8) -> ([bool; XCH], [u16; XCH], usize) {
    let mut c = tagged();
    let mut ch = XChan { bit: [false; XCH], tag: [0; XCH], n: 0 };
    for (k, a, b) in [(k0, a0, b0), (k1, a1, b1)] {
        match k {
            0 => c.encode_value(a as u16, b, &mut ch),
            1 => c.encode_misprediction(a != 0, CodecMisprediction::LiteralPredictionWrong, &mut ch),
            _ => c.encode_correction(a, CodecCorrection::LenCorrection, &mut ch),
        }
    }
    c.flush_encode(&mut ch);
    (ch.bit, ch.tag, ch.n)
}
