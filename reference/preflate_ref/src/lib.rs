#![allow(warnings)]
/*---------------------------------------------------------------------------------------------
 *  Copyright (c) Microsoft Corporation. All rights reserved.
 *  Licensed under the Apache License, Version 2.0. See LICENSE.txt in the project root for license information.
 *  This software incorporates material from third parties. See NOTICE.txt for details.
 *--------------------------------------------------------------------------------------------*/

pub mod add_policy_estimator;
pub mod bit_helper;
pub mod bit_reader;
pub mod bit_writer;
pub mod cabac_codec;
pub mod complevel_estimator;
pub mod deflate_reader;
pub mod deflate_writer;
pub mod depth_estimator;
pub mod hash_algorithm;
pub mod hash_chain;
pub mod hash_chain_holder;
pub mod huffman_calc;
pub mod huffman_encoding;
pub mod huffman_helper;
pub mod idat_parse;
pub mod preflate_constants;
pub mod preflate_container;
pub mod preflate_error;
pub mod preflate_input;
pub mod preflate_parameter_estimator;
pub mod preflate_parse_config;
pub mod preflate_stream_info;
pub mod preflate_token;
pub mod process;
pub mod scan_deflate;
pub mod statistical_codec;
pub mod token_predictor;
pub mod tree_predictor;

pub use preflate_container::{
    compress_zstd, decompress_deflate_stream, decompress_zstd, expand_zlib_chunks,
    recompress_deflate_stream, recreated_zlib_chunks,
};
pub use preflate_error::PreflateError;

// C ABI wrappers and tests removed from the frozen reference copy (symbol clash when linked with the current build)

#[path = "../../export/common.rs"]
pub mod verif_export_common;
